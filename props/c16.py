"""C16 - f_apply calls the function once, with every argument in its place."""
import json
from concurrent.futures import Future

from harness import runner
from harness.env import SpyFuture
from harness.oracles import abnormal
from harness.stackrun import fut_state, state_desc

PROP = "C16"
PLAN = {"quick": {"runs": 14000, "wall_s": 90}, "thorough": {"runs": 300000, "wall_s": 1200}}
RULE = ("Each run: f_apply over a function future plus 0-4 positional and 0-3 keyword argument futures (plain or library futures), "
        "completed by 1-3 threads in scheduler-chosen order (some already done), some failing; the function records its call and "
        "returns (args, sorted kwargs), or raises. Oracle: result equals the direct call, fn called exactly once and only after every "
        "input's completion had begun; with failing inputs the output fails with one of their exceptions (or fn's) and fn ran at most "
        "once. Non-trivial = a pre-emption and at least two inputs completed by different threads.")
ASSUMPTIONS = ["which of several failing inputs wins is left open, as the property does"]
KW = ["ka", "kb", "kc"]


def family(sig):
    return sig.rsplit("|", 1)[0]


def gen(rng, tier):
    npos = rng.choice([0, 1, 2, 2, 3, 4])
    nkw = rng.choice([0, 0, 1, 2, 3])
    ins = [{"role": "fn", "end": rng.choice(["val", "val", "val", "val", "exc"])}]
    for i in range(npos):
        ins.append({"role": "pos", "end": rng.choice(["val", "val", "val", "exc"])})
    for i in range(nkw):
        ins.append({"role": KW[i], "end": rng.choice(["val", "val", "val", "exc"])})
    for inp in ins:
        inp["at"] = rng.choice([None, 0, 0, 0.05, 0.1])
        inp["by"] = rng.randrange(3)
        inp["lib"] = rng.random() < 0.2
        inp["proxy"] = (not inp["lib"]) and rng.random() < 0.15     # the input is an f_proxy() future
    # discard: fire-and-forget use - the caller does not keep the returned future; the function must
    # still be called once all inputs have resolved
    spec = {"ins": ins, "fn_raises": rng.random() < 0.15, "settle": 5.0, "discard": rng.random() < 0.2, "falsy_exc": rng.random() < 0.15}
    spec["sim"] = runner.draw_sim_cfg(rng, est=500)
    spec["sim"]["horizon_s"] = 5000
    return spec


def run(spec, env):
    from more_executors import futures as F
    from more_executors._impl.map import MapFuture
    sim = env.sim
    ins = spec["ins"]
    n = len(ins)
    raw = [SpyFuture(env, "in%d" % i) for i in range(n)]
    values = {}
    calls = []

    def the_fn(*args, **kwargs):
        calls.append((args, kwargs))
        env.rec("fn-call", len(args), sorted(kwargs))
        sim.yield_point("user-fn")
        if spec["fn_raises"]:
            raise env.exc(("fn",))
        return ("applied", args, tuple(sorted(kwargs.items())))

    for i, inp in enumerate(ins):
        if inp["end"] == "exc":
            values[i] = env.exc(("in", i), "FalsyErr" if spec.get("falsy_exc") else "ScriptedError")
        elif inp["role"] == "fn":
            values[i] = the_fn
        else:
            values[i] = ["arg", i]
    env.objs["values"] = values
    env.objs["calls"] = calls

    def complete(i):
        r = raw[i]
        b = env.rec("complete", i, ins[i]["end"])
        try:
            if r.set_running_or_notify_cancel():
                if ins[i]["end"] == "exc":
                    r.set_exception(values[i])
                else:
                    r.set_result(values[i])
        except Exception as e:
            env.rec("complete-raised", i, type(e).__name__)
        env.rec("complete-ret", i, b)

    for i, inp in enumerate(ins):
        if inp["at"] is None:
            complete(i)
    w = [MapFuture(raw[i]) if ins[i]["lib"] else (F.f_proxy(raw[i]) if ins[i].get("proxy") else raw[i]) for i in range(n)]
    pos = [w[i] for i in range(n) if ins[i]["role"] == "pos"]
    kws = {ins[i]["role"]: w[i] for i in range(n) if ins[i]["role"] in KW}
    try:
        out = F.f_apply(w[0], *pos, **kws)
    except Exception as e:
        env.rec("build-raised", type(e).__name__, str(e)[:60])
        return
    env.rec("built")
    if spec.get("discard"):
        out = None
        import gc
        gc.collect()

    def completer(k):
        def body():
            mine = sorted((inp["at"], i) for i, inp in enumerate(ins) if inp["by"] == k and inp["at"] is not None)
            t = 0.0
            for (at, i) in mine:
                if at > t:
                    env.sleep(at - t)
                    t = at
                sim.yield_point("user")
                complete(i)
        return body

    for k in range(3):
        env.client(completer(k), "client-c%d" % k)
    env.join_all()
    env.sleep(spec["settle"])
    st = fut_state(out) if out is not None else ("discarded",)
    env.objs["final"] = st
    env.rec("final", [st[0]])


def check(spec, env):
    sim = env.sim
    if abnormal(sim):
        return []
    log = sim.log
    out = []
    ins = spec["ins"]
    for e in log:
        if e[3] == "build-raised":
            return [{"oracle": "construct", "sig": "f_apply-raised|%s" % e[4], "msg": "f_apply(...) raised %s: %s" % (e[4], e[5])}]
        if e[3] == "complete-raised":
            out.append({"oracle": "completion-raised", "sig": "input-completion-raised|%s" % e[5], "msg": "completing input %d raised %s" % (e[4], e[5])})
    st = env.objs.get("final")
    if st is None:
        return out
    values = env.objs["values"]
    calls = env.objs["calls"]
    shape = "%dpos+%dkw" % (sum(1 for i in ins if i["role"] == "pos"), sum(1 for i in ins if i["role"] in KW))
    failing = [i for i, inp in enumerate(ins) if inp["end"] == "exc"]
    if len(calls) > 1:
        out.append({"oracle": "fn-once", "sig": "fn-called-%d-times" % len(calls), "msg": "f_apply called the function %d times (%s)" % (len(calls), shape)})
    # fn only after every input's completion began
    cbeg = {e[4]: e[0] for e in log if e[3] == "complete"}
    for e in log:
        if e[3] == "fn-call":
            late = [i for i in range(len(ins)) if cbeg.get(i, 1 << 60) > e[0]]
            if late:
                out.append({"oracle": "fn-early", "sig": "fn-before-inputs", "msg": "the function was called (event %d) before inputs %r had begun to complete" % (e[0], late)})
            break
    if st[0] == "discarded":
        if not failing and len(calls) != 1:
            out.append({"oracle": "fn-once", "sig": "fn-called-%d-times|output-discarded" % len(calls),
                        "msg": "the caller dropped the future returned by f_apply; all inputs then succeeded but the function was called %d times (%s)" % (len(calls), shape)})
        return out
    if st[0] == "pending":
        out.append({"oracle": "pending", "sig": "pending|%s" % ("failing-input" if failing else "all-ok"),
                    "msg": "f_apply output still pending although every input finished (%s, failing inputs %r)" % (shape, failing)})
        return out
    if failing:
        ok = st[0] == "exc" and any(st[1] is values[i] for i in failing)
        if not ok and not (st[0] == "exc" and spec["fn_raises"] and st[1] is env.excs.get(repr(("fn",)))):
            out.append({"oracle": "failure", "sig": "failing-input-not-propagated|%s" % st[0],
                        "msg": "inputs %r failed but f_apply ended %r (%s)" % (failing, st[0], shape)})
        return out
    if len(calls) != 1:
        out.append({"oracle": "fn-once", "sig": "fn-called-%d-times" % len(calls), "msg": "all inputs succeeded but the function was called %d times (%s)" % (len(calls), shape)})
        return out
    (args, kwargs) = calls[0]
    want_args = [values[i] for i, inp in enumerate(ins) if inp["role"] == "pos"]
    want_kw = {inp["role"]: values[i] for i, inp in enumerate(ins) if inp["role"] in KW}
    if len(args) != len(want_args) or any(a is not b for a, b in zip(args, want_args)):
        out.append({"oracle": "arguments", "sig": "positional-arguments-misplaced",
                    "msg": "function called with positional %r, expected %r" % ([getattr(a, "__getitem__", lambda k: a)(1) if isinstance(a, list) else a for a in args], [v[1] for v in want_args])})
    if sorted(kwargs) != sorted(want_kw) or any(kwargs[k] is not want_kw[k] for k in want_kw if k in kwargs):
        out.append({"oracle": "arguments", "sig": "keyword-arguments-misplaced",
                    "msg": "function called with keywords %r, expected %r" % ({k: v[1] for k, v in kwargs.items() if isinstance(v, list)}, {k: v[1] for k, v in want_kw.items()})})
    if spec["fn_raises"]:
        if not (st[0] == "exc" and st[1] is env.excs.get(repr(("fn",)))):
            out.append({"oracle": "fn-exception", "sig": "fn-exception-lost", "msg": "the function raised but f_apply ended %r" % st[0]})
    else:
        if not (st[0] == "val" and isinstance(st[1], tuple) and st[1][0] == "applied" and len(st[1][1]) == len(args) and all(a is b for a, b in zip(st[1][1], args))):
            out.append({"oracle": "result", "sig": "result-not-fn-return|%s" % st[0], "msg": "f_apply ended %r, expected the function's return value" % (st[0],)})
    return out


def probes(spec, env):
    sim = env.sim
    log = sim.log
    threads = set(e[2] for e in log if e[3] == "complete" and e[2] != 0)
    pr = {"positional": sum(1 for i in spec["ins"] if i["role"] == "pos"), "keyword": sum(1 for i in spec["ins"] if i["role"] in KW),
          "fault:failing-inputs": sum(1 for i in spec["ins"] if i["end"] == "exc"), "fault:fn-raises": 1 if spec["fn_raises"] else 0,
          "fn-calls": sum(1 for e in log if e[3] == "fn-call"), "abnormal-runs": 1 if abnormal(sim) else 0}
    pr["_nontrivial"] = sim.preemptions > 0 and len(threads) >= 2
    return pr


def shrink(spec):
    def cp():
        return json.loads(json.dumps(spec))
    for i in range(1, len(spec["ins"])):
        s = cp()
        del s["ins"][i]
        # keep keyword names contiguous
        k = 0
        for inp in s["ins"]:
            if inp["role"] in KW:
                inp["role"] = KW[k]
                k += 1
        yield s
    for i, inp in enumerate(spec["ins"]):
        for key, v in (("lib", False), ("at", None), ("end", "val")):
            if inp[key] != v:
                s = cp()
                s["ins"][i][key] = v
                yield s
    if spec["fn_raises"]:
        s = cp()
        s["fn_raises"] = False
        yield s
