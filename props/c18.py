"""C18 - faults in user code stay with their own future; worker threads survive."""
import json

from harness import runner, model
from harness.oracles import abnormal
from harness.stackgen import gen_layers
from harness.stackrun import StackRun, fut_state, state_desc

PROP = "C18"
PLAN = {"quick": {"runs": 10000, "wall_s": 90}, "thorough": {"runs": 250000, "wall_s": 1200}}
RULE = ("Each run: a random stack of depth 1-4 over sync / thread pool / scripted delegate with a fault plan over the "
        "user-code call sites (callable, map / error / flat-map functions, poll function at call k, cancel function, "
        "should_retry / sleep_time at attempt k, throttle count callable at call k, done-callbacks) combined with concurrent "
        "cancel()s; after the faults a probe submission with a fault-free callable. Non-trivial = a pre-emption and at least "
        "one user-code fault that fired.")
ASSUMPTIONS = ["the user's own callback raising through add_done_callback on an already-done future is expected",
               "a raising poll function legitimately fails every future it was shown (those futures are exempt from the outcome comparison)"]
ALLOWED_RESULT_EXC = ("ScriptedError", "ErrA", "ErrB", "ErrC", "TypeError", "CancelledError", "TimeoutError")


def family(sig):
    return sig.rsplit("|", 1)[0]


def gen_retry_focus(rng):
    """Directed family: a RetryExecutor whose policy may retry successful results, hammered by
    several cancel()s from two threads (the windows around re-queueing and finalisation)."""
    pol = {"kind": "custom", "max": rng.choice([2, 3, 4]), "on": rng.choice(["always", "always", "exc"]), "sleep": rng.choice([0, 0, 0.05])}
    layers = [{"t": "retry", "policy": pol}]
    if rng.random() < 0.3:
        layers.append({"t": rng.choice(["map", "timeout", "cos"]), "fn": None, "err": None, "timeout": 5000.0})
    nsub = rng.choice([1, 1, 2])
    subs = {str(s): {"script": [rng.choice(["ok", "ok", "ErrA"]), "ok"], "dur": rng.choice([0, 0, 0.05])} for s in range(nsub)}
    subs["probe"] = {"script": ["ok"], "dur": 0}
    clients = [[["submit", s] for s in range(nsub)]]
    for _ in range(2):
        ops = []
        if rng.random() < 0.6:
            ops.append(["await", "should-retry"])     # place the cancels around the policy evaluation
        for _ in range(rng.choice([1, 2, 3])):
            if rng.random() < 0.2:
                ops.append(["sleep", rng.choice([0.01, 0.05])])
            ops.append(["cancel", rng.randrange(nsub)])
        clients.append(ops)
    spec = {"base": {"kind": rng.choice(["pool", "spy"]), "n": 2}, "layers": layers, "subs": subs, "clients": clients, "aux": False,
            "settle": 30.0, "probe_bound": 1.0}
    spec["sim"] = runner.draw_sim_cfg(rng, est=500)
    spec["sim"]["line"] = True
    if spec["sim"]["strategy"] in ("uniform", "sticky"):
        spec["sim"]["line_q"] = rng.choice([0.05, 0.2, 1.0])
    else:
        spec["sim"]["line_q"] = 1.0
    spec["sim"]["horizon_s"] = 5000
    return spec


def gen(rng, tier):
    if rng.random() < 0.2:
        return gen_retry_focus(rng)
    depth = rng.choice([1, 2, 2, 3, 4])
    base = {"kind": rng.choice(["sync", "pool", "pool", "spy"]), "n": rng.choice([1, 2])}
    nclients = rng.choice([1, 2, 3])
    per = [rng.choice([1, 2, 3]) for _ in range(nclients)]
    total = sum(per)
    layers = gen_layers(rng, depth, nsubs=total, faults=True, fast=True)
    for L in layers:
        if L["t"] == "throttle":
            L["block"] = False
            if rng.random() < 0.4:
                seq = [rng.choice([1, 2, 3]) for _ in range(rng.choice([3, 5]))]
                k = rng.randrange(1, len(seq))
                seq[k] = "raise"
                if rng.random() < 0.35:
                    seq[k - 1] = None     # "no limit" as the last good answer before the callable raises
                L["count"] = {"seq": seq}
        if L["t"] == "poll":
            if rng.random() < 0.4:
                L["raise_at"] = sorted(set(rng.choice([1, 2, 3]) for _ in range(rng.choice([1, 2]))))
            L["cancel_fn"] = rng.choice([None, "true", "false", "raise", "raise"])
        if L["t"] == "retry" and rng.random() < 0.5:
            for k in ("max_attempts", "sleep", "exponent", "max_sleep", "exception_base"):
                L.pop(k, None)
            L["policy"] = {"kind": "custom", "max": rng.choice([2, 3, 4]), "on": rng.choice(["exc", "exc", "always"]),
                           "sleep": rng.choice([0, 0.05])}
            if rng.random() < 0.5:
                L["policy"]["raise_should"] = rng.choice([1, 2])
            else:
                L["policy"]["raise_sleep"] = rng.choice([1, 2])
    subs = {}
    clients = []
    sid = 0
    for c in range(nclients):
        ops = []
        for _ in range(per[c]):
            nfail = rng.choice([0, 0, 1, 2])
            subs[str(sid)] = {"script": [rng.choice(["ErrA", "ErrB"]) for _ in range(nfail)] + [rng.choice(["ok", "ok", "ErrA"])],
                              "dur": rng.choice([0, 0, 0.05, 0.1])}
            ops.append(["submit", sid])
            r = rng.random()
            if r < 0.3:
                ops.append(["cb", sid, "raise"])
            if rng.random() < 0.35:
                if rng.random() < 0.6:
                    ops.append(["sleep", rng.choice([0.01, 0.05, 0.1])])
                ops.append(["cancel", sid])
                if rng.random() < 0.4:
                    ops.append(["cancel", sid])
            if rng.random() < 0.3:
                ops.append(["result", sid, 300.0])
            if rng.random() < 0.2:
                ops.append(["done", sid])
            sid += 1
        clients.append(ops)
    subs["probe"] = {"script": ["ok"], "dur": 0}
    spec = {"base": base, "layers": layers, "subs": subs, "clients": clients, "aux": any("aux" in json.dumps(L.get("fn")) for L in layers if L["t"] == "flat_map")}
    bound = 0.0
    for s in subs:
        if s == "probe":
            continue
        (_, _, work, slp) = model.eval_sub(spec, int(s))
        bound += work + slp
    spec["settle"] = round(bound + 60.0, 3)
    (_, _, pw, ps) = model.eval_sub(spec, "probe")
    spec["probe_bound"] = round(pw + ps + 1.0, 3)
    spec["sim"] = runner.draw_sim_cfg(rng, est=800)
    spec["sim"]["horizon_s"] = spec["settle"] * 3 + 5000
    return spec


def run(spec, env):
    sr = StackRun(spec, env)
    env.objs["sr"] = sr
    sr.build()
    # raising done-callbacks
    orig_do = sr.do_op

    def do_op(op):
        if op[0] == "cb" and len(op) > 2:
            f = sr.futs.get(op[1])
            if f is None:
                return
            i = env.rec("op", "cbraise", op[1])

            def cb(fut):
                env.rec("cb-raise-run", op[1])
                raise env.exc(("cb", op[1]))
            def witness(fut, k=i):
                env.rec("cb-witness-run", op[1], k)
            try:
                f.add_done_callback(cb)
                env.rec("op-ret", "cbraise", op[1], "ok", None, i)
                # a second callback behind the raising one: the fault must not swallow it
                f.add_done_callback(witness)
                env.rec("cb-witness-added", op[1], i)
            except Exception as e:
                # expected only when the future is already done (the user's own exception)
                env.rec("op-ret", "cbraise", op[1], "raised", type(e).__name__, i)
            return
        return orig_do(op)
    sr.do_op = do_op
    sr.run_clients()
    env.sleep(spec["settle"])
    sr.finals()
    # liveness probe: a fault-free submission must be served
    t0 = env.now()
    i = env.rec("probe")
    try:
        f = sr.ex.submit(sr.make_fn("probe"))
        try:
            v = f.result(spec["probe_bound"] + 600.0)
            env.rec("probe-ret", "val", state_desc(("val", v)), env.now() - t0)
        except Exception as e:
            env.rec("probe-ret", "exc", state_desc(("exc", e)), env.now() - t0)
            env.objs["probe_exc"] = e
    except Exception as e:
        env.rec("probe-ret", "submit-raised", type(e).__name__, 0)


def check(spec, env):
    sim = env.sim
    log = sim.log
    out = []
    types = "+".join(L["t"] for L in spec["layers"])
    cul = "+".join(sorted(set(L["t"] for L in spec["layers"])))
    # (1) no library thread dies
    for e in log:
        if e[3] == "thread-died" and not e[4].startswith("client"):
            out.append({"oracle": "thread-died", "sig": "thread-died|%s|%s|%s" % (e[4].rstrip("0123456789-_"), e[5], e[7][-1] if e[7] else "?"),
                        "msg": "internal thread %s died with %s: %s (frames %r); layers %s" % (e[4], e[5], e[6], e[7], types)})
    if abnormal(sim):
        return out
    # (2) nothing but scripted outcomes escapes from Future methods / submit
    for e in log:
        if e[3] == "op-ret" and e[4] in ("cancel", "cb") and e[6] == "raised":
            out.append({"oracle": "escaped", "sig": "escaped|%s|%s" % (e[4], e[7].split(":")[0]),
                        "msg": "%s() on the future of submission %r raised %s; layers %s" % ("cancel" if e[4] == "cancel" else "add_done_callback", e[5], e[7], types)})
        elif e[3] == "op-ret" and e[4] == "result" and e[6] == "exc":
            tname = e[7][1] if isinstance(e[7], (list, tuple)) and len(e[7]) > 1 else "?"
            if tname not in ALLOWED_RESULT_EXC:
                out.append({"oracle": "escaped", "sig": "internal-exception-as-outcome|%s" % tname,
                            "msg": "result() of submission %r raised the library-internal %s: %r; layers %s" % (e[5], tname, e[7], types)})
        elif e[3] == "op-ret" and e[4] == "cbraise" and e[6] == "raised" and e[7] != "ScriptedError":
            out.append({"oracle": "escaped", "sig": "escaped|add_done_callback|%s" % e[7],
                        "msg": "add_done_callback() raised %s; layers %s" % (e[7], types)})
    # (2b) a raising done-callback is the callback's own problem: one registered behind it on the
    #      same future still runs (once) when the future finishes
    finals = env.objs.get("finals", {})
    added = [e for e in log if e[3] == "cb-witness-added"]
    ran = {}
    for e in log:
        if e[3] == "cb-witness-run":
            ran[e[5]] = ran.get(e[5], 0) + 1
    for e in added:
        st = finals.get(e[4])
        if st is not None and st[0] != "pending" and ran.get(e[5], 0) != 1:
            out.append({"oracle": "callback-swallowed", "sig": "callback-behind-raising-callback-ran-%d-times" % ran.get(e[5], 0),
                        "msg": "submission %r: a done-callback registered right after one that raises ran %d times although the future finished (%s); layers %s"
                               % (e[4], ran.get(e[5], 0), st[0], types)})
            break
    # (3) untargeted futures still get the reference outcome
    touched = set(e[5] for e in log if e[3] == "op" and e[4] == "cancel")
    # a raising poll call fails whatever it was shown (a schedule-dependent set, further mapped by
    # the layers above): in such runs the outcome comparison is left to C08 / C01
    poll_raised = any(e[3] == "ufn" and e[4] == "poll-raise" for e in log)
    for s, st in list(finals.items()):
        if s in touched or st[0] in ("cancelled",):
            continue
        if poll_raised and st[0] != "pending":
            continue
        if st[0] == "exc" and getattr(st[1], "tag", (None,))[0] == "pollfn":
            continue
        (o, ncalls, _, _) = model.eval_sub(spec, s)
        if st[0] == "pending":
            out.append({"oracle": "stuck", "sig": "pending-after-faults|%s" % cul,
                        "msg": "submission %d still pending %.0fs after the faults; layers %s" % (s, spec["settle"], types)})
            continue
        diff = model.matches(env, o, st)
        if diff:
            out.append({"oracle": "outcome", "sig": "wrong-outcome|%s|%s" % (o.kind, cul),
                        "msg": "submission %d: %s; layers %s" % (s, diff, types)})
    # (4) the executor still serves
    pr = [e for e in log if e[3] == "probe-ret"]
    if pr:
        p = pr[0]
        (o, _, pw, ps) = model.eval_sub(spec, "probe")
        if p[4] == "submit-raised":
            out.append({"oracle": "probe", "sig": "probe-submit-raised|%s" % p[5], "msg": "the probe submission was refused: %s; layers %s" % (p[5], types)})
        elif p[4] == "exc" and isinstance(p[5], list) and len(p[5]) > 1 and p[5][1][1] == "TimeoutError":
            out.append({"oracle": "probe", "sig": "probe-never-completed|%s" % cul,
                        "msg": "after the faults a fault-free submission was never completed (waited %.0f virtual s); layers %s" % (p[6], types)})
        else:
            e = env.objs.get("probe_exc")
            if not poll_raised:
                st = ("val", _tup(p[5][1])) if p[4] == "val" else ("exc", e)
                diff = model.matches(env, o, st)
                if diff and o.kind != "unknown":
                    out.append({"oracle": "probe", "sig": "probe-wrong-outcome|%s" % cul, "msg": "probe submission: %s; layers %s" % (diff, types)})
            if p[6] > spec["probe_bound"] + 31.0:
                out.append({"oracle": "probe", "sig": "probe-late|%s" % cul,
                            "msg": "probe submission took %.3f virtual s, the configuration implies at most %.3fs; layers %s" % (p[6], spec["probe_bound"], types)})
    return out


def _tup(x):
    if isinstance(x, list):
        return tuple(_tup(y) for y in x)
    return x


def probes(spec, env):
    sim = env.sim
    log = sim.log
    faults = {
        "fault:callable-raised": sum(1 for e in log if e[3] == "call-end" and e[6] != "ok"),
        "fault:map/err/flat-fn-raised": sum(1 for e in log if e[3] == "ufn" and e[4] in ("map", "err", "flat", "flaterr") and e[-1] in ("raise", "reraise", "nonfuture", "retexc")),
        "fault:poll-fn-raised": sum(1 for e in log if e[3] == "ufn" and e[4] == "poll-raise"),
        "fault:cancel-fn-raised": sum(1 for e in log if e[3] == "ufn" and e[4] == "cancelfn" and e[-1] == "raise"),
        "fault:policy-raised": 1 if any(L.get("policy", {}).get("raise_should") or L.get("policy", {}).get("raise_sleep") for L in spec["layers"]) and any(e[3] == "ufn" and e[4] in ("should_retry", "sleep_time") for e in log) else 0,
        "fault:count-callable-raised": sum(1 for e in log if e[3] == "ufn" and e[4] == "count" and e[6] == "raise"),
        "fault:done-callback-raised": sum(1 for e in log if e[3] == "cb-raise-run"),
    }
    pr = dict(faults)
    pr["op:cancel"] = sum(1 for e in log if e[3] == "op" and e[4] == "cancel")
    pr["probe-served"] = sum(1 for e in log if e[3] == "probe-ret" and e[4] == "val")
    pr["abnormal-runs"] = 1 if abnormal(sim) else 0
    pr["_nontrivial"] = sim.preemptions > 0 and sum(faults.values()) > 0
    return pr


def shrink(spec):
    def cp():
        return json.loads(json.dumps(spec))
    for i in range(len(spec["layers"])):
        if len(spec["layers"]) > 1:
            s = cp()
            del s["layers"][i]
            yield s
    for c in range(len(spec["clients"])):
        if len(spec["clients"]) > 1:
            s = cp()
            del s["clients"][c]
            yield s
    for c in range(len(spec["clients"])):
        for o in range(len(spec["clients"][c])):
            if spec["clients"][c][o][0] != "submit":
                s = cp()
                del s["clients"][c][o]
                yield s
    for k, sub in spec["subs"].items():
        if len(sub["script"]) > 1:
            s = cp()
            s["subs"][k]["script"] = sub["script"][1:]
            yield s
