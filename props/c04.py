"""C04 - no deadlock among API calls and internal threads, including nested submission."""
from harness import runner
from harness.env import build_stack
from harness.stackgen import Fns, gen_layers
from harness.oracles import deadlock_violations

PROP = "C04"
PLAN = {"quick": {"runs": 14000, "wall_s": 90}, "thorough": {"runs": 150000, "wall_s": 900}}
RULE = ("Each run: a random executor stack (depth 0-3 over sync / thread_pool(1-2)), up to 3 client threads "
        "issuing submit / cancel / add_done_callback / result(timeout) / one shutdown, with nested submissions "
        "from callables, map / flat_map / poll functions and done-callbacks, under a seeded schedule. "
        "Non-trivial = at least one pre-emption and at least one lock acquired while another was held or one nested submission.")
ASSUMPTIONS = [
    "nested code only submits (and adds a done-callback to what it gets back); it never waits on foreign futures",
    "blocking-mode throttle stacks do not nest submissions (a full queue blocks by specification)",
    "shutdown is called from one thread only",
]
LOCKS = ("SimLock", "SimRLock")
CHECK_STEPCAP = True


def gen_timeout_cancel(rng):
    """Focus family: an inner layer that cancels on its own thread (a firing timeout) below one to
    three further layers, a saturated single worker so that the cancel succeeds, and client
    cancel() / add_done_callback calls placed at the instant the timeout fires."""
    tmo = rng.choice([0.05, 0.1, 0.15])
    above = []
    for _ in range(rng.choice([1, 2, 2, 3])):
        t = rng.choice(["map", "map", "flat_map", "throttle", "timeout", "cos", "retry"])
        L = {"t": t}
        if t == "map":
            L["fn"] = rng.choice([None, "wrap"])
            L["err"] = None
        elif t == "flat_map":
            L["fn"] = rng.choice([None, "ret"])
            L["err"] = None
        elif t == "throttle":
            L["count"] = rng.choice([2, 3])
            L["block"] = False
        elif t == "timeout":
            L["timeout"] = 5000.0
        elif t == "retry":
            L.update({"max_attempts": 1, "sleep": 0, "exponent": 1, "max_sleep": 1})
        above.append(L)
    layers = [{"t": "timeout", "timeout": tmo}] + above
    subs = {}
    nsub = rng.choice([2, 3])
    for s in range(nsub):
        subs[str(s)] = {"dur": 0.2, "nest": False, "fail": 0}
    first = [["submit", s] for s in range(nsub)]
    tail = [["sleep", tmo]]
    for _ in range(rng.choice([1, 2])):
        tail.append([rng.choice(["cancel", "cancel", "cb"]), rng.randrange(1, nsub)])
        if tail[-1][0] == "cb":
            tail[-1].append(False)
    clients = [first + tail]
    if rng.random() < 0.5:
        clients.append([["sleep", tmo], ["cancel", rng.randrange(1, nsub)]])
    return {"sim": runner.draw_sim_cfg(rng, est=400), "base": {"kind": "pool", "n": 1}, "layers": layers,
            "subs": subs, "clients": clients, "settle": 15.0, "focus": "timeout-cancel"}


def gen_shutdown_race(rng):
    """Focus family: thread-owning layers, a little work, then shutdown(wait=True) from the client
    while the layers' own threads are still finishing their iteration (lost wake-up / join)."""
    layers = []
    for _ in range(rng.choice([1, 1, 2])):
        t = rng.choice(["retry", "retry", "poll", "throttle", "timeout"])
        L = {"t": t}
        if t == "retry":
            L.update({"max_attempts": rng.choice([1, 2]), "sleep": rng.choice([0, 0.05]), "exponent": 1, "max_sleep": 1})
        elif t == "poll":
            L.update({"interval": 0.5, "after": 1, "out": "ok", "cancel_fn": None})
        elif t == "throttle":
            L.update({"count": rng.choice([1, 2]), "block": False})
        else:
            L["timeout"] = 5000.0
        layers.append(L)
    nsub = rng.choice([1, 1, 2])
    subs = {str(s): {"dur": rng.choice([0, 0, 0.01]), "nest": False, "fail": rng.choice([0, 0, 1])} for s in range(nsub)}
    ops = [["submit", s] for s in range(nsub)]
    if rng.random() < 0.7:
        ops.append(["result", rng.randrange(nsub)])
    ops.append(["shutdown", True])
    sim_cfg = runner.draw_sim_cfg(rng, est=300)
    if rng.random() < 0.5:
        # the window is a few lines of a worker loop, with no user code nearby: dense site-directed schedules
        for k in ("d", "p", "q", "max_hold", "est", "calibrate", "kmax"):
            sim_cfg.pop(k, None)
        sim_cfg.update({"strategy": "site", "site_mod": 15, "line_q": 1.0, "line": True})
    return {"sim": sim_cfg, "base": {"kind": rng.choice(["sync", "pool"]), "n": 1}, "layers": layers,
            "subs": subs, "clients": [ops], "settle": 15.0, "focus": "shutdown-race"}


def gen(rng, tier):
    r0 = rng.random()
    if r0 < 0.15:
        return gen_shutdown_race(rng)
    if r0 < 0.38:
        return gen_timeout_cancel(rng)
    depth = rng.choice([0, 1, 1, 2, 2, 3])
    base = {"kind": rng.choice(["sync", "pool", "pool"]), "n": rng.choice([1, 2])}
    layers = gen_layers(rng, depth, nsubs=6, faults=False)
    for L in layers:
        if L["t"] == "timeout" and rng.random() < 0.5:
            L["timeout"] = rng.choice([0.05, 0.1, 0.15])   # a timeout that fires: cancels (and runs callbacks) on the timeout thread
    blocking = any(L["t"] == "throttle" and L.get("block") for L in layers)
    nest_ok = not blocking
    for L in layers:
        if L["t"] in ("map", "flat_map", "poll") and nest_ok and rng.random() < 0.3:
            L["nest"] = True
            if L["t"] in ("map", "flat_map") and L.get("fn") is None:
                L["fn"] = "wrap" if L["t"] == "map" else "ret"
    nclients = rng.choice([1, 2, 2, 3])
    clients = []
    sid = 0
    subs = {}
    for c in range(nclients):
        ops = []
        mine = []
        firing = [L["timeout"] for L in layers if L["t"] == "timeout" and L["timeout"] < 100]
        for _ in range(rng.choice([1, 2, 3, 4])):
            k = rng.choice(["submit", "submit", "cancel", "cb", "result"])
            if mine and rng.random() < 0.15:
                # let virtual time pass: to the instant a timeout fires, or a callable ends
                ops.append(["sleep", rng.choice(firing + [0.01, 0.2])])
            if k == "submit" or not mine:
                subs[str(sid)] = {"dur": rng.choice([0, 0.01, 0.2]),
                                  "nest": nest_ok and rng.random() < 0.4,
                                  "fail": rng.choice([0, 0, 1, 2])}
                ops.append(["submit", sid])
                mine.append(sid)
                sid += 1
            else:
                target = rng.choice(mine) if rng.random() < 0.8 else rng.randrange(max(sid, 1))
                if k == "cb":
                    ops.append(["cb", target, nest_ok and rng.random() < 0.5])
                else:
                    ops.append([k, target])
        clients.append(ops)
    if rng.random() < 0.35:
        clients[rng.randrange(nclients)].append(["shutdown", rng.random() < 0.7])
    if not blocking and depth >= 1 and rng.random() < 0.1:
        # somebody shuts an inner executor (or the base) down directly, early on: later submits are
        # refused from inside the outer executors - and everything else must keep working
        c = rng.randrange(nclients)
        clients[c].insert(rng.randrange(len(clients[c]) + 1), ["shutdown-inner", rng.randrange(depth)])
    return {"sim": runner.draw_sim_cfg(rng, est=400), "base": base, "layers": layers,
            "subs": subs, "clients": clients, "settle": 15.0}


def run(spec, env):
    sim = env.sim
    fns = Fns(env)
    ex, chain = build_stack(env, spec["base"], spec["layers"], fns.get())
    fns.chain = chain
    futs = {}
    env.objs["nested"] = 0

    def leaf():
        return ("v", "leaf", 0)

    def nest_hook(layer_i, where):
        target = ex if layer_i is None else chain[layer_i + 1]
        env.rec("nest", where)
        env.objs["nested"] += 1
        try:
            f = target.submit(leaf)
            f.add_done_callback(lambda f: None)
            env.rec("nest-ret", where)
        except RuntimeError:
            env.rec("nest-refused", where)

    fns.nest_hook = nest_hook

    def make_fn(s, sub):
        n = [0]

        def fn():
            n[0] += 1
            env.rec("call", s, n[0])
            if sub["nest"]:
                nest_hook(None, "callable")
            if sub["dur"]:
                sim.sleep(sub["dur"])
            if n[0] <= sub["fail"]:
                raise env.exc(("v", s, n[0]))
            return ("v", s, n[0])
        return fn

    def client_body(ops):
        def body():
            for op in ops:
                k = op[0]
                if k == "submit":
                    s = op[1]
                    try:
                        futs[s] = ex.submit(make_fn(s, spec["subs"][str(s)]))
                        env.rec("op", "submit", s)
                    except RuntimeError:
                        env.rec("op", "submit-refused", s)
                    continue
                if k == "sleep":
                    env.sleep(op[1])
                    continue
                if k == "shutdown":
                    env.rec("op", "shutdown", op[1])
                    ex.shutdown(op[1])
                    env.rec("op", "shutdown-ret")
                    continue
                if k == "shutdown-inner":
                    env.rec("op", "shutdown-inner", op[1])
                    chain[min(op[1], len(chain) - 2)].shutdown(True)
                    env.rec("op", "shutdown-inner-ret")
                    continue
                f = futs.get(op[1])
                if f is None:
                    continue
                if k == "cancel":
                    try:
                        r = f.cancel()
                    except Exception as e:  # not C04's business (C02 / C18 flag it)
                        r = type(e).__name__
                    env.rec("op", "cancel", op[1], r)
                elif k == "cb":
                    if op[2]:
                        f.add_done_callback(lambda f: nest_hook(None, "callback"))
                    else:
                        f.add_done_callback(lambda f: None)
                    env.rec("op", "cb", op[1])
                elif k == "result":
                    try:
                        f.result(timeout=60.0)
                        env.rec("op", "result", op[1], "ok")
                    except Exception as e:
                        env.rec("op", "result", op[1], type(e).__name__)
        return body

    for ops in spec["clients"]:
        env.client(client_body(ops))
    env.join_all()
    env.sleep(spec["settle"])


def check(spec, env):
    out = deadlock_violations(env.sim)
    sim = env.sim
    if not out and sim.outcome and sim.outcome[0] in ("horizon", "stuck"):
        # a client sitting in shutdown()'s join on a library thread that will never exit (the join
        # carries a huge timeout, so it is a timed wait that only the horizon ends)
        from harness.oracles import lib_chain
        for (name, typ, site, timed, owner, owner_blocked) in sim.final_blocked:
            if name.startswith("client") and typ == "SimThread":
                chain = lib_chain(sim.final_stacks.get(name.rsplit("#", 1)[0], sim.final_stacks.get(name, [])))
                out.append({"oracle": "client-blocked-forever", "sig": "client-blocked|join@%s" % chain,
                            "msg": "client %s never returned from joining a library thread (outcome %s); blocked: %r; stacks: %r"
                                   % (name, sim.outcome[0], sim.final_blocked, sim.final_stacks)})
                break
    return out


def probes(spec, env):
    sim = env.sim
    nested = env.objs.get("nested", 0)
    return {"nested-submissions": nested, "lock-order-edges-seen": len(sim.lock_edges),
            "op:shutdown": sum(1 for e in sim.log if e[3] == "op" and e[4] == "shutdown"),
            "op:cancel": sum(1 for e in sim.log if e[3] == "op" and e[4] == "cancel"),
            "_nontrivial": sim.preemptions > 0 and (nested > 0 or len(sim.lock_edges) > 0)}


def shrink(spec):
    import json
    # drop a client, an op, a layer; clear nest flags
    for c in range(len(spec["clients"])):
        if len(spec["clients"]) > 1:
            s = json.loads(json.dumps(spec))
            del s["clients"][c]
            yield s
    for c in range(len(spec["clients"])):
        for o in range(len(spec["clients"][c])):
            s = json.loads(json.dumps(spec))
            del s["clients"][c][o]
            if s["clients"][c]:
                yield s
    for i in range(len(spec["layers"])):
        s = json.loads(json.dumps(spec))
        del s["layers"][i]
        yield s
    for i in range(len(spec["layers"])):
        if spec["layers"][i].get("nest"):
            s = json.loads(json.dumps(spec))
            s["layers"][i]["nest"] = False
            yield s
    for k, sub in spec["subs"].items():
        for key, val in (("nest", False), ("dur", 0), ("fail", 0)):
            if sub.get(key):
                s = json.loads(json.dumps(spec))
                s["subs"][k][key] = val
                yield s
    if spec["base"]["kind"] == "pool" and spec["base"]["n"] > 1:
        s = json.loads(json.dumps(spec))
        s["base"]["n"] = 1
        yield s
