"""C01 - composed executors deliver each callable's own outcome, exactly once."""
import json

from harness import runner, model
from harness.oracles import abnormal
from harness.stackgen import gen_layers
from harness.stackrun import StackRun

PROP = "C01"
PLAN = {"quick": {"runs": 12000, "wall_s": 90}, "thorough": {"runs": 150000, "wall_s": 1200}}
RULE = ("Each run: a random stack of depth 1-6 (every layer type, any order) over sync / thread_pool(1-3) / scripted "
        "delegate, 1-3 submitter threads x 1-4 submissions with unique tagged values, positional+keyword arguments and "
        "per-invocation outcome scripts for the callable and every user function; optional racing cancels. Oracle: "
        "sequential reference evaluation (value equality, exception identity, invocation count, argument integrity). "
        "Non-trivial = at least one pre-emption and at least two submissions in flight.")
ASSUMPTIONS = ["futures for which any cancel() was issued are exempt from the outcome comparison (C06 covers them)",
               "timeout layers use a far deadline; throttle layers are non-blocking here (blocking mode: C07)"]


def gen(rng, tier):
    depth = rng.choice([1, 2, 2, 3, 3, 4, 5, 6])
    base = {"kind": rng.choice(["sync", "pool", "pool", "spy"]), "n": rng.choice([1, 2, 3])}
    if base["kind"] == "spy":
        base["order"] = rng.choice(["fifo", "lifo"])
    nclients = rng.choice([1, 2, 2, 3])
    nsubs_per = [rng.choice([1, 2, 3, 4]) for _ in range(nclients)]
    total = sum(nsubs_per)
    layers = gen_layers(rng, depth, nsubs=total, faults=True)
    for L in layers:
        if L["t"] == "throttle":
            L["block"] = False   # blocking mode is C07's subject (its lost wake-up would only add latency here)
        if L["t"] == "poll" and rng.random() < 0.3:
            # a raising poll call fails what it was shown (those futures are exempt below), but
            # must not make any other future disappear
            L["raise_at"] = sorted(set(rng.choice([1, 2, 3, 4]) for _ in range(rng.choice([1, 2]))))
    subs = {}
    clients = []
    sid = 0
    with_cancel = rng.random() < 0.25
    # some runs raise exceptions whose classes mean something to Python or to concurrent.futures
    # (StopIteration, CancelledError, AttributeError, KeyError): they are exceptions like any other
    err_names = ["ErrA", "ErrA", "ErrB", "ErrC"] + (["ErrStop", "ErrCancelled", "ErrAttr", "ErrKey", "FalsyErr"] if rng.random() < 0.2 else [])
    for c in range(nclients):
        ops = []
        for _ in range(nsubs_per[c]):
            nfail = rng.choice([0, 0, 0, 1, 2, 3])
            script = [rng.choice(err_names) for _ in range(nfail)] + ["ok"]
            if rng.random() < 0.15:
                script = script[:-1] + [rng.choice(err_names)]
            subs[str(sid)] = {"script": script, "dur": rng.choice([0, 0, 0.01, 0.1]),
                              "args": [["a", sid], rng.randrange(100)][:rng.choice([0, 1, 2])],
                              "kwargs": {"k": ["kw", sid]} if rng.random() < 0.4 else {}}
            ops.append(["submit", sid])
            if with_cancel and rng.random() < 0.3:
                if rng.random() < 0.5:
                    ops.append(["sleep", rng.choice([0.01, 0.05, 0.5])])
                ops.append(["cancel", sid])
            if rng.random() < 0.3:
                ops.append(["result", sid, 200.0])
            sid += 1
        clients.append(ops)
    spec = {"sim": runner.draw_sim_cfg(rng, est=800), "base": base, "layers": layers, "subs": subs,
            "clients": clients, "aux": any(_uses_aux(L) for L in layers)}
    bound = 0.0
    for s in subs:
        (_, _, work, slp) = model.eval_sub(spec, int(s))
        bound += work + slp
    spec["settle"] = round(bound + 40.0, 3)
    spec["sim"]["horizon_s"] = spec["settle"] * 3 + 1000
    return spec


def _uses_aux(L):
    f = L.get("fn")
    return L["t"] == "flat_map" and (f == "aux" or (isinstance(f, dict) and (f.get("default") == "aux" or "aux" in f.get("subs", {}).values())))


def run(spec, env):
    sr = StackRun(spec, env)
    env.objs["sr"] = sr
    sr.build()
    sr.run_clients()
    env.sleep(spec["settle"])
    sr.finals()


def check(spec, env):
    sim = env.sim
    if abnormal(sim):
        return []
    sr = env.objs["sr"]
    finals = env.objs.get("finals", {})
    out = []
    cancelled_ops = set(e[5] for e in sim.log if e[3] == "op" and e[4] == "cancel")
    types = "+".join(L["t"] for L in spec["layers"])
    poll_raised = any(e[3] == "ufn" and e[4] == "poll-raise" for e in sim.log)
    calls = {}
    for e in sim.log:
        if e[3] == "call":
            calls.setdefault(e[4], []).append(e)
    for s, st in finals.items():
        sub = spec["subs"][str(s)]
        # argument integrity: always
        want_args = model._norm(sub.get("args", []))
        want_kw = model._norm(sorted(sub.get("kwargs", {}).items()))
        for e in calls.get(s, []):
            if model._norm(e[6]) != want_args or model._norm(e[7]) != want_kw:
                out.append({"oracle": "args", "sig": "args-corrupted|%s" % types,
                            "msg": "submission %d invoked with %r %r, submitted with %r %r" % (s, e[6], e[7], want_args, want_kw)})
                break
        if s in cancelled_ops or st[0] == "cancelled":
            continue
        (o, ncalls, _, _) = model.eval_sub(spec, s)
        if poll_raised and st[0] != "pending":
            continue   # which futures a raising poll call was shown is schedule-dependent (C08 judges it)
        if st[0] == "pending":
            out.append({"oracle": "dropped", "sig": "pending-at-end|%s" % _culprit(spec),
                        "msg": "submission %d still pending %.1fs after everything quiesced; model says %r; layers %s"
                               % (s, spec["settle"], o, types)})
            continue
        diff = model.matches(env, o, st)
        if diff:
            out.append({"oracle": "outcome", "sig": "wrong-outcome|%s|%s" % (o.kind, _culprit(spec)),
                        "msg": "submission %d: %s; layers %s; script %r" % (s, diff, types, sub["script"])})
        n = len(calls.get(s, []))
        if ncalls is not None and n != ncalls:
            out.append({"oracle": "invocations", "sig": "invocation-count|%s|%s" % ("more" if n > ncalls else "fewer", _culprit(spec)),
                        "msg": "submission %d: callable invoked %d times, sequential evaluation needs %d; layers %s; script %r"
                               % (s, n, ncalls, types, sub["script"])})
    return out


def family(sig):
    return sig.rsplit("|", 1)[0]


def _culprit(spec):
    return "+".join(sorted(set(L["t"] for L in spec["layers"])))


def probes(spec, env):
    sim = env.sim
    nsub = sum(1 for e in sim.log if e[3] == "op" and e[4] == "submit")
    retries = sum(1 for e in sim.log if e[3] == "call" and e[5] > 1)
    pr = {"submissions": nsub, "callable-invocations-after-first (retries)": retries,
          "fault:user-fn-raised": sum(1 for e in sim.log if e[3] == "ufn" and e[-1] in ("raise", "reraise", "nonfuture", "retexc")),
          "fault:callable-raised": sum(1 for e in sim.log if e[3] == "call-end" and e[6] != "ok"),
          "op:cancel": sum(1 for e in sim.log if e[3] == "op" and e[4] == "cancel"),
          "abnormal-runs": 1 if abnormal(sim) else 0}
    for L in spec["layers"]:
        pr["layer:" + L["t"]] = pr.get("layer:" + L["t"], 0) + 1
    pr["base:" + spec["base"]["kind"]] = 1
    pr["_nontrivial"] = sim.preemptions > 0 and nsub >= 2
    return pr


def shrink(spec):
    def cp():
        return json.loads(json.dumps(spec))
    for i in range(len(spec["layers"])):
        s = cp()
        del s["layers"][i]
        yield s
    for c in range(len(spec["clients"])):
        if len(spec["clients"]) > 1:
            s = cp()
            del s["clients"][c]
            yield s
    for c in range(len(spec["clients"])):
        for o in range(len(spec["clients"][c])):
            if spec["clients"][c][o][0] != "submit":
                s = cp()
                del s["clients"][c][o]
                yield s
    for c in range(len(spec["clients"])):
        subs_here = [op[1] for op in spec["clients"][c] if op[0] == "submit"]
        for sid in subs_here:
            if sum(1 for ops in spec["clients"] for op in ops if op[0] == "submit") > 1:
                s = cp()
                s["clients"][c] = [op for op in s["clients"][c] if not (len(op) > 1 and op[1] == sid)]
                if s["clients"][c]:
                    yield s
    for k, sub in spec["subs"].items():
        if len(sub["script"]) > 1:
            s = cp()
            s["subs"][k]["script"] = sub["script"][1:]
            yield s
        if sub.get("dur"):
            s = cp()
            s["subs"][k]["dur"] = 0
            yield s
    if spec["base"].get("n", 1) > 1:
        s = cp()
        s["base"]["n"] = 1
        yield s
