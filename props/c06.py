"""C06 - cancel: True means the work never starts; it stops retries; it propagates."""
import json
from concurrent.futures import Future

from harness import runner, model
from harness.env import SpyFuture, sub_of
from harness.oracles import abnormal
from harness.stackgen import gen_layers
from harness.stackrun import StackRun, tap_submits, fut_state, state_desc

PROP = "C06"
PLAN = {"quick": {"runs": 20000, "wall_s": 90}, "thorough": {"runs": 300000, "wall_s": 1200}}
RULE = ("Each run: a random stack (depth 1-4) over a scripted spy delegate or a real thread pool, or an f_* combinator "
        "over spy inputs; cancel() is issued 1-3 times from 1-2 threads at drawn virtual times across the life of each "
        "future (queued, between retries, during hand-over, running, polling, being resolved). Oracles over the history: "
        "no callable start and no delegate submission after a True cancel; False while running and normal completion "
        "afterwards; no re-submission by a RetryExecutor after any cancel() returned; the request reaches the innermost "
        "pending work (spy records), never through f_nocancel. Non-trivial = a pre-emption and a cancel() that raced "
        "with in-flight work.")
ASSUMPTIONS = ["poll-stage cancels may legitimately succeed after the callable finished",
               "attempts that started before cancel() returned are not violations"]


def family(sig):
    return sig.rsplit("|", 1)[0]


def gen(rng, tier):
    if rng.random() < 0.2:
        return gen_comb(rng)
    depth = rng.choice([1, 1, 2, 2, 3, 4])
    base = {"kind": rng.choice(["spy", "spy", "pool"]), "n": rng.choice([1, 1, 2])}
    nsubs = rng.choice([1, 2, 3, 4])
    layers = gen_layers(rng, depth, nsubs=nsubs, faults=False, fast=True)
    for L in layers:
        if L["t"] == "throttle":
            L["block"] = False
        if L["t"] == "retry":
            L["sleep"] = rng.choice([0, 0.05, 0.2])
    subs = {}
    for s in range(nsubs):
        nfail = rng.choice([0, 0, 1, 2, 3])
        subs[str(s)] = {"script": ["ErrA"] * nfail + ["ok"], "dur": rng.choice([0, 0.05, 0.1, 0.2])}
    nclients = rng.choice([1, 2])
    clients = [[] for _ in range(nclients + 1)]
    for s in range(nsubs):
        clients[0].append(["submit", s])
        if rng.random() < 0.2:
            # cancel straight after submit(): races with the executor's own thread picking the job up
            clients[0].append(["cancel", s])
    for c in range(1, nclients + 1):
        t = 0.0
        for _ in range(rng.choice([1, 2, 3])):
            r = rng.random()
            if r < 0.3:
                # land around the end of an attempt: policy evaluation, re-queueing, hand-over
                clients[c].append(["await", rng.choice(["call-exit", "call-exit", "call-enter", "fn-enter"])])
            else:
                d = rng.choice([0, 0, 0.02, 0.05, 0.1, 0.15, 0.25, 0.4])
                if d:
                    clients[c].append(["sleep", d])
            clients[c].append(["cancel", rng.randrange(nsubs)])
    spec = {"mode": "stack", "base": base, "layers": layers, "subs": subs, "clients": clients, "aux": False}
    bound = 0.0
    for s in subs:
        (_, _, work, slp) = model.eval_sub(spec, int(s))
        bound += work + slp
    spec["settle"] = round(bound + 40.0, 3)
    spec["sim"] = runner.draw_sim_cfg(rng, est=600, stall_ok=True)
    if any(op[0] == "await" for ops in clients for op in ops):
        runner.prefer_place(spec["sim"], 0.4)
    spec["sim"]["horizon_s"] = 20000
    return spec


def gen_comb(rng):
    n = rng.choice([1, 2, 3])
    spec = {"mode": "comb", "comb": rng.choice(["zip", "and", "or", "sequence", "traverse", "map", "flat_map", "apply", "proxy", "timeout"]),
            "n": n, "shield": [rng.random() < 0.3 for _ in range(n)],
            "done_first": [rng.random() < 0.25 for _ in range(n)],
            "cancel_at": rng.choice([0, 0.05]), "settle": 5.0}
    spec["sim"] = runner.draw_sim_cfg(rng, est=200)
    spec["sim"]["horizon_s"] = 20000
    # (drawn last) inputs that are already cancelled when the combinator is built: the inputs after
    # them are still inputs, and a True cancel() of the output still reaches them
    spec["cancelled_first"] = [(not spec["done_first"][i]) and rng.random() < 0.2 for i in range(n)]
    return spec


def install_probe():
    """Diagnostic probe (harness side, nothing in /repo): log when a ThrottleFuture gets its
    delegate, so that the oracle can tell the hand-over window of finding F12 from other causes."""
    from more_executors._impl import throttle
    from sim import core
    TF = throttle.ThrottleFuture
    if getattr(TF, "_verif_probe", False) or not hasattr(TF, "_set_delegate"):
        return
    orig = TF._set_delegate

    def _set_delegate(self, delegate):
        r = orig(self, delegate)
        s = core.current()
        if s is not None and delegate is not None and getattr(s, "c06_probes", False):
            s.ev("tf-set-delegate")
        return r
    TF._set_delegate = _set_delegate
    TF._verif_probe = True
    # which cancel() calls actually reached a RetryFuture (oracle 3 is about those)
    from more_executors._impl import retry
    RF = retry.RetryFuture
    RE = retry.RetryExecutor
    orig_cancel = RF.cancel
    orig_submit_retry = RE.submit_retry

    def cancel(self):
        s = core.current()
        if s is not None and not getattr(s, "c06_probes", False):
            s = None
        if s is not None:
            s.ev("rf-cancel", self._sim_serial)
        r = orig_cancel(self)
        if s is not None:
            s.ev("rf-cancel-ret", self._sim_serial, r if isinstance(r, bool) else "?")
        return r

    def submit_retry(self, retry_policy, fn, *args, **kwargs):
        f = orig_submit_retry(self, retry_policy, fn, *args, **kwargs)
        s = core.current()
        if s is not None and getattr(s, "c06_probes", False):
            s.ev("rf-new", f._sim_serial, getattr(fn, "tag", None), 0)
        return f
    RF.cancel = cancel
    RE.submit_retry = submit_retry


def run(spec, env):
    if spec["mode"] == "comb":
        return run_comb(spec, env)
    install_probe()
    env.sim.c06_probes = True     # the class-level probes log only in C06's own runs
    sr = StackRun(spec, env)
    env.objs["sr"] = sr
    sr.build()
    tap_submits(env, sr.chain)
    sr.run_clients()
    env.sleep(spec["settle"])
    sr.finals()


def run_comb(spec, env):
    from more_executors import futures as F
    raw = [SpyFuture(env, "in%d" % i) for i in range(spec["n"])]
    ins = [F.f_nocancel(r) if spec["shield"][i] else r for i, r in enumerate(raw)]
    for i, r in enumerate(raw):
        if spec["done_first"][i]:
            r.set_running_or_notify_cancel()
            r.set_result(1)
        elif spec.get("cancelled_first", [False] * spec["n"])[i]:
            if Future.cancel(r):
                r.set_running_or_notify_cancel()
    c = spec["comb"]
    if c == "zip":
        out = F.f_zip(*ins)
    elif c == "and":
        out = F.f_and(*ins)
    elif c == "or":
        out = F.f_or(*ins)
    elif c == "sequence":
        out = F.f_sequence(ins)
    elif c == "traverse":
        out = F.f_traverse(lambda x: x, ins)
    elif c == "map":
        out = F.f_map(ins[0], lambda x: x)
    elif c == "flat_map":
        out = F.f_flat_map(ins[0], lambda x: F.f_return(x))
    elif c == "apply":
        out = F.f_apply(F.f_return(lambda *a: a), *ins)
    elif c == "proxy":
        out = F.f_proxy(ins[0])
    else:
        out = F.f_timeout(ins[0], 5000.0)
    if spec["cancel_at"]:
        env.sleep(spec["cancel_at"])
    i = env.rec("out-cancel")
    r = out.cancel()
    env.rec("out-cancel-ret", r, i)
    env.sleep(spec["settle"])
    env.objs["raw_state"] = [(f.cancel_calls, f.cancelled(), f.done()) for f in raw]
    env.rec("final-out", state_desc(fut_state(out)) if not isinstance(fut_state(out)[-1], Future) else ["val"])


def _tt(x):
    if isinstance(x, (list, tuple)):
        return tuple(_tt(y) for y in x)
    return x


def check(spec, env):
    sim = env.sim
    if abnormal(sim):
        return []
    if spec["mode"] == "comb":
        return check_comb(spec, env)
    log = sim.log
    out = []
    finals = env.objs.get("finals", {})
    types = "+".join(L["t"] for L in spec["layers"])
    has_poll = any(L["t"] == "poll" for L in spec["layers"])
    has_retry = any(L["t"] == "retry" for L in spec["layers"])
    retry_delegate_levels = [i for i, L in enumerate(spec["layers"]) if L["t"] == "retry"]  # chain[i] is the delegate
    rets = {e[8]: e for e in log if e[3] == "op-ret" and e[4] == "cancel"}
    cancels = []  # (sub, invoke seq, return seq, result)
    for e in log:
        if e[3] == "op" and e[4] == "cancel" and e[0] in rets:
            r = rets[e[0]]
            cancels.append((e[5], e[0], r[0], r[6]))
    calls = {}
    ends = {}
    for e in log:
        if e[3] == "call":
            calls.setdefault(e[4], []).append(e)
        elif e[3] == "call-end":
            ends[(e[4], e[5])] = e
    dsub = [e for e in log if e[3] == "dsubmit"]
    # windows in which a map / flat-map function of a submission was executing: [begin, end] and thread
    fn_windows = {}
    open_fn = {}
    for e in log:
        if e[3] == "ufn" and e[4] in ("map", "flat"):
            sx = sub_of(_tt(e[6]))
            open_fn[(e[2], e[4], e[5])] = (e[0], sx)
        elif e[3] == "ufn-end" and (e[2], e[4], e[5]) in open_fn:
            (b, sx) = open_fn.pop((e[2], e[4], e[5]))
            if sx is not None:
                fn_windows.setdefault(sx, []).append((b, e[0]))
    spy_sub = {}   # label -> (seq, sub tag)
    spy_done = {}
    spy_cancels = {}
    for e in log:
        if e[3] == "spy-submit":
            spy_sub[e[4]] = (e[0], e[5])
        elif e[3] in ("spy-done", "spy-reaped"):
            spy_done[e[4]] = e[0]
        elif e[3] == "spy-cancel":
            spy_cancels.setdefault(e[4], []).append(e[0])
        elif e[3] == "spy-cancel-ret" and e[5]:
            spy_done.setdefault(e[4], e[0])
    for (s, inv, ret, res) in cancels:
        if res == "raised":
            continue  # C02 / C18
        if res is True:
            # (1) never started / re-submitted afterwards, stays cancelled
            for c in calls.get(s, []):
                if c[0] > ret:
                    out.append({"oracle": "started-after-cancel", "sig": "call-after-true-cancel|%s" % _cul(spec),
                                "msg": "submission %d: callable started (attempt %d, event %d) after cancel() had returned True (event %d); layers %s"
                                       % (s, c[5], c[0], ret, types)})
                    break
            for d in dsub:
                if d[5] == s and d[0] > ret:
                    out.append({"oracle": "submitted-after-cancel", "sig": "dsubmit-after-true-cancel|%s|level%s" % (_cul(spec), spec["layers"][d[4]]["t"] if d[4] < len(spec["layers"]) else "top"),
                                "msg": "submission %d: handed to the delegate at level %d (event %d) after cancel() had returned True (event %d); layers %s"
                                       % (s, d[4], d[0], ret, types)})
                    break
            st = finals.get(s)
            if st is not None and st[0] != "cancelled":
                out.append({"oracle": "true-cancel-not-cancelled", "sig": "true-cancel-final|%s|%s" % (_cul(spec), st[0]),
                            "msg": "submission %d: cancel() returned True but the future ended %r; layers %s" % (s, state_desc(st), types)})
        # (2b) a mapping function of this submission executing on another thread for the whole
        #      cancel() call: the delegate has finished (nothing left to cancel), the outcome is
        #      being computed - same as a running callable: False
        if res is True:
            for (b, e_) in fn_windows.get(s, []):
                if b < inv and e_ > ret:
                    out.append({"oracle": "cancelled-while-running", "sig": "true-while-mapping-function-running|%s" % _cul(spec),
                                "msg": "submission %d: cancel() returned True (events %d..%d) although one of its map / flat-map functions was executing "
                                       "on another thread for the whole call (events %d..%d); layers %s" % (s, inv, ret, b, e_, types)})
                    break
        # (2) running throughout => False, and completes normally
        if not has_poll:
            for c in calls.get(s, []):
                e = ends.get((s, c[5]))
                if c[0] < inv and e is not None and e[0] > ret:
                    if res is True:
                        out.append({"oracle": "cancelled-while-running", "sig": "true-while-running|%s" % _cul(spec),
                                    "msg": "submission %d: cancel() returned True although its callable (attempt %d) was running on a worker for the whole call; layers %s"
                                           % (s, c[5], types)})
                    st = finals.get(s)
                    if res is False and st is not None and st[0] in ("pending", "cancelled"):
                        later_true = any(s2 == s and r2 is True for (s2, _, _, r2) in cancels)
                        if not later_true:
                            out.append({"oracle": "no-normal-completion", "sig": "false-cancel-then-%s|%s" % (st[0], _cul(spec)),
                                        "msg": "submission %d: cancel() returned False while the callable was running, yet the future ended %s; layers %s"
                                               % (s, st[0], types)})
        # (3) see below (per cancel() that reached a RetryFuture)
        # (4) the request reaches the innermost pending work
        if spec["base"]["kind"] == "spy":
            for label, (sseq, tag) in spy_sub.items():
                if tag != s or sseq > inv:
                    continue
                dn = spy_done.get(label)
                if dn is not None and dn < ret:
                    continue
                # pending at the spy for the whole cancel() call
                hit = [c for c in spy_cancels.get(label, []) if inv < c < ret]
                started = any(e[3] == "spy-run" and e[4] == label and e[0] < inv for e in log)
                if not hit and not started:
                    cause = _cul(spec)
                    for li, L in enumerate(spec["layers"]):
                        if L["t"] != "throttle":
                            continue
                        for d in dsub:
                            if d[4] == li and d[5] == s and d[0] < inv:
                                nxt = [e[0] for e in log if e[3] == "tf-set-delegate" and e[2] == d[2] and e[0] > d[0]]
                                if not nxt or ret < nxt[0]:
                                    cause = "throttle-handover-window"
                    out.append({"oracle": "cancel-not-forwarded", "sig": "not-forwarded|%s|%s" % (res, cause),
                                "msg": "submission %d: its delegate future %s was queued (not started, not done) during the whole cancel() call, "
                                       "which returned %r, but received no cancel(); layers %s" % (s, label, res, types)})
    # (3) retry: no delegate submission for a future after any cancel() on it has returned
    rf_tag = {}
    for e in log:
        if e[3] == "rf-new":
            rf_tag.setdefault(e[4], e[5])
    # a RetryFuture belongs to the retry layer whose delegate level it is submitted to; with
    # several retry layers the tag is the same submission, so check every retry delegate level
    for e in log:
        if e[3] != "rf-cancel-ret":
            continue
        s = rf_tag.get(e[4])
        if s is None:
            continue
        # which retry layer?  the one whose executor created this future: identify by creation
        # order - futures of an inner retry layer are created by the outer layer's submit thread
        for lvl in retry_delegate_levels:
            later = [d for d in dsub if d[4] == lvl and d[5] == s and d[0] > e[0]]
            if not later:
                continue
            # only the layer that owns this future: an outer RetryFuture's cancel must stop
            # the outer layer; inner layers are re-submitted only by the outer one
            owner = _owner_level(log, e[4], retry_delegate_levels)
            if owner is not None and owner != lvl:
                continue
            out.append({"oracle": "retry-after-cancel", "sig": "retry-resubmit-after-cancel|%s|%s" % (e[5], _cul(spec)),
                        "msg": "submission %d: RetryExecutor (layer %d) submitted to its delegate (event %d) after a cancel() on its future had returned %r (event %d); layers %s"
                               % (s, lvl, later[0][0], e[5], e[0], types)})
            break
    return out


def _owner_level(log, serial, retry_levels):
    """Retry layer (by delegate level) that created RetryFuture `serial`: the rf-new event is
    logged while the creating submit() is still between its 'dsubmit' and 'dsubmit-ret' taps."""
    open_levels = []
    for e in log:
        if e[3] == "dsubmit":
            open_levels.append((e[2], e[4]))
        elif e[3] == "dsubmit-ret":
            if (e[2], e[4]) in open_levels:
                open_levels.remove((e[2], e[4]))
        elif e[3] == "rf-new" and e[4] == serial:
            mine = [lvl for (tid, lvl) in open_levels if tid == e[2]]
            # the innermost open submit of this thread is the retry executor's own (level = its index + 1)
            if mine:
                lv = min(mine)
                return lv - 1 if (lv - 1) in retry_levels else None
            return None
    return None


def check_comb(spec, env):
    sim = env.sim
    out = []
    st = env.objs.get("raw_state")
    r = [e for e in sim.log if e[3] == "out-cancel-ret"]
    if not st or not r:
        return out
    res = r[0][4]
    # zip-based and boolean combinators fan a cancel out to every input; f_apply is a chain of
    # curried flat-maps whose outermost link is the last argument (C06's mechanism does not
    # promise more for it); single-input wrappers have one input.
    if spec["comb"] in ("zip", "and", "or", "sequence", "traverse"):
        used = range(len(st))
    elif spec["comb"] == "apply":
        used = [len(st) - 1]
    else:
        used = [0]
    if res is True:
        for i, (ncalls, cancelled, done) in enumerate(st):
            if spec["done_first"][i] or i not in used or spec.get("cancelled_first", [False] * len(st))[i]:
                continue
            if spec["shield"][i]:
                if ncalls:
                    out.append({"oracle": "nocancel-pierced", "sig": "nocancel-pierced|%s" % spec["comb"],
                                "msg": "f_%s: cancelling the output reached an input shielded by f_nocancel (%d cancel() calls)" % (spec["comb"], ncalls)})
            elif spec["comb"] == "flat_map" and False:
                pass
            elif ncalls == 0:
                out.append({"oracle": "input-not-cancelled", "sig": "input-not-cancelled|%s" % spec["comb"],
                            "msg": "f_%s: output cancel() returned True but pending input %d received no cancel()" % (spec["comb"], i)})
    for i, (ncalls, cancelled, done) in enumerate(st):
        if spec["shield"][i] and ncalls:
            out.append({"oracle": "nocancel-pierced", "sig": "nocancel-pierced|%s" % spec["comb"],
                        "msg": "f_%s: a cancel() reached the future behind f_nocancel" % spec["comb"]})
            break
    return out


def _cul(spec):
    return "+".join(sorted(set(L["t"] for L in spec["layers"])))


def probes(spec, env):
    sim = env.sim
    log = sim.log
    if spec["mode"] == "comb":
        return {"mode:comb": 1, "comb:" + spec["comb"]: 1, "_nontrivial": sim.preemptions > 0 and spec["n"] > 1}
    trues = sum(1 for e in log if e[3] == "op-ret" and e[4] == "cancel" and e[6] is True)
    falses = sum(1 for e in log if e[3] == "op-ret" and e[4] == "cancel" and e[6] is False)
    fwd = sum(1 for e in log if e[3] == "spy-cancel")
    pr = {"mode:stack": 1, "cancel->True": trues, "cancel->False": falses, "cancel-forwarded-to-delegate": fwd,
          "fault:thread-stall": len(sim.stalls), "retries": sum(1 for e in log if e[3] == "call" and e[5] > 1),
          "abnormal-runs": 1 if abnormal(sim) else 0}
    # cancel that raced with in-flight work: issued after submit returned and before the future was final
    pr["_nontrivial"] = sim.preemptions > 0 and (trues + falses) > 0 and (fwd > 0 or falses > 0)
    return pr


def shrink(spec):
    def cp():
        return json.loads(json.dumps(spec))
    if spec["mode"] == "comb":
        return
    for i in range(len(spec["layers"])):
        s = cp()
        del s["layers"][i]
        yield s
    for c in range(1, len(spec["clients"])):
        if len(spec["clients"]) > 2:
            s = cp()
            del s["clients"][c]
            yield s
    for c in range(len(spec["clients"])):
        for o in range(len(spec["clients"][c])):
            s = cp()
            del s["clients"][c][o]
            if s["clients"][c]:
                yield s
    for k, sub in spec["subs"].items():
        if len(sub["script"]) > 1:
            s = cp()
            s["subs"][k]["script"] = sub["script"][1:]
            yield s
