"""C19 - bind / flat_bind chains are equivalent to the executor chain; names propagate
(simulation as a differential harness: both sides run in the same simulated run)."""
import functools
import json

from harness import runner
from harness.oracles import abnormal
from harness.stackrun import fut_state, state_desc
from harness.env import desc

PROP = "C19"
PLAN = {"quick": {"runs": 10000, "wall_s": 90}, "thorough": {"runs": 250000, "wall_s": 1200}}
RULE = ("Each run: a random chain of 0-4 with_* calls (map, flat_map, retry, poll, throttle, timeout, cancel_on_shutdown) with drawn "
        "explicit / inherited names, applied (A) to the executor followed by submit(fn, *args), (B) partly before and partly after "
        "bind(fn), (C) for future-returning callables flat_bind(fn) against bind(fn).with_flat_map(identity); callables are plain "
        "functions, functools.partial objects, callable objects and bound callables of another executor, with scripted failures. Both sides run in the same simulated run "
        "over fresh bases; outcomes, invocation counts and the names of all threads created are compared. Non-trivial = a pre-emption "
        "and a chain that creates at least one thread or retries at least once.")
ASSUMPTIONS = ["mostly a programs x inputs property: the simulator contributes exact, repeatable comparison for chains with worker threads and timers, and the thread-name observation point"]
OPS = ["map", "flat_map", "retry", "poll", "throttle", "timeout", "cos"]
THREAD_PREFIX = {"retry": "RetryExecutor", "poll": "PollExecutor", "throttle": "ThrottleExecutor", "timeout": "TimeoutExecutor"}


def family(sig):
    return sig.rsplit("|", 1)[0]


FOREIGN = ("innername", "objname")


def gen(rng, tier):
    n = rng.choice([0, 1, 2, 2, 3, 4])
    chain = []
    for _ in range(n):
        chain.append({"t": rng.choice(OPS), "name": rng.choice([None, None, None, None, None, None, "x%d" % rng.randrange(3), "x%d" % rng.randrange(3), ""])})
    spec = {"chain": chain, "split": rng.randrange(n + 1), "base": rng.choice(["sync", "pool"]),
            "base_name": rng.choice([None, "nm", "nm", "nm", "nm", ""]), "fn_kind": rng.choice(["function", "partial", "object", "function", "partial", "object", "bound"]),
            "flat": rng.random() < 0.3, "fails": rng.choice([0, 0, 1, 2]), "args": [rng.randrange(10) for _ in range(rng.choice([0, 1, 2]))],
            "settle": 3.0, "fork": rng.random() < 0.4,
            # the base executor is shut down before the call: both forms must refuse (or accept) alike
            "shutdown_first": rng.random() < 0.12}
    spec["sim"] = runner.draw_sim_cfg(rng, est=500)
    spec["sim"]["horizon_s"] = 5000
    # (drawn last so that every other field keeps its value for a given run index)
    # the base is a plain concurrent.futures executor - no name attribute at all - reached through the
    # classmethod forms Executors.bind(executor, fn) / Executors.with_*(executor, ...)
    spec["plain_base"] = rng.random() < 0.2
    # the callable carries a `_name` of its own (a callable object keeping self._name, or a bound
    # callable of another, named executor): that is the callable's business, never a layer's name
    spec["fn_named"] = rng.random() < 0.4
    if spec["plain_base"]:
        spec["base"], spec["base_name"] = "pool", None
    return spec


def expected_names(spec):
    """Thread-name fragments each side must create: list of (prefix, name)."""
    cur = spec["base_name"] if spec["base_name"] is not None else "default"
    out = []
    if spec["base"] == "pool" and not spec.get("plain_base"):
        out.append(("ThreadPoolExecutor", spec["base_name"]))
    for L in spec["chain"]:
        if L["name"] is not None:
            cur = L["name"]
        if L["t"] in THREAD_PREFIX:
            out.append((THREAD_PREFIX[L["t"]], cur))
    return out


def run(spec, env):
    from more_executors import Executors
    from more_executors.futures import f_return
    sim = env.sim

    def make_fn(side):
        calls = [0]

        def work(*a):
            calls[0] += 1
            env.rec("call", side, calls[0], list(a))
            sim.yield_point("user")
            if calls[0] <= spec["fails"]:
                raise env.exc(("w", side, calls[0]), "ErrA")
            v = ("v",) + tuple(a)
            if spec["fn_kind"] == "bound":
                return v       # the future comes from the executor this callable is bound to
            return f_return(v) if spec["flat"] else v
        if spec["fn_kind"] == "bound":
            # the callable handed to bind() / submit() is itself a bound callable of another executor:
            # calling it returns a future, like any other future-returning callable
            return (Executors.sync(name=FOREIGN[0]) if spec.get("fn_named") else Executors.sync()).bind(work), calls
        if spec["fn_kind"] == "partial":
            return functools.partial(lambda tag, *a: work(*a), "p"), calls
        if spec["fn_kind"] == "object":
            class Obj(object):
                def __call__(self, *a):
                    return work(*a)
            o = Obj()
            if spec.get("fn_named"):
                o._name = FOREIGN[1]
            return o, calls
        return work, calls

    class _ClassForm(object):
        # a plain concurrent.futures executor has no with_* / bind methods: the classmethod forms
        def __init__(self, ex):
            self.ex = ex

        def __getattr__(self, meth):
            return lambda *a, **kw: getattr(Executors, meth)(self.ex, *a, **kw)

    def M(target):
        return target if hasattr(target, "with_map") else _ClassForm(target)

    def apply(target, L):
        kw = {"name": L["name"]} if L["name"] is not None else {}
        t = L["t"]
        target = M(target)
        if t == "map":
            return target.with_map(lambda x: ("m", x), **kw)
        if t == "flat_map":
            return target.with_flat_map(lambda x: f_return(("fm", x)), **kw)
        if t == "retry":
            return target.with_retry(max_attempts=3, sleep=0.05, **kw)
        if t == "poll":
            def poll_fn(ds):
                for d in ds:
                    d.yield_result(("p", d.result))
            return target.with_poll(poll_fn, default_interval=0.2, **kw)
        if t == "throttle":
            return target.with_throttle(2, **kw)
        if t == "timeout":
            return target.with_timeout(500.0, **kw)
        return target.with_cancel_on_shutdown(**kw)

    def base():
        if spec.get("plain_base"):
            import concurrent.futures
            return concurrent.futures.ThreadPoolExecutor(max_workers=1, thread_name_prefix="plainbase")
        kw = {"name": spec["base_name"]} if spec["base_name"] is not None else {}
        return Executors.sync(**kw) if spec["base"] == "sync" else Executors.thread_pool(max_workers=1, **kw)

    def run_side(side):
        mark = len(sim.threads)
        (fn, calls) = make_fn(side)
        ex = base()
        the_base = ex
        bound0 = None
        try:
            if side == "A0":
                # reference for the intermediate bound callable: only the layers before bind
                for L in spec["chain"][:spec["split"]]:
                    ex = apply(ex, L)
                if spec["flat"]:
                    ex = M(ex).with_flat_map(lambda f: f)
                if spec.get("shutdown_first"):
                    the_base.shutdown(True)
                f = ex.submit(fn, *spec["args"])
            elif side == "A":
                for L in spec["chain"]:
                    ex = apply(ex, L)
                if spec["flat"]:
                    ex = M(ex).with_flat_map(lambda f: f)
                if spec.get("shutdown_first"):
                    the_base.shutdown(True)
                f = ex.submit(fn, *spec["args"])
            else:
                for L in spec["chain"][:spec["split"]]:
                    ex = apply(ex, L)
                bound = M(ex).flat_bind(fn) if spec["flat"] else M(ex).bind(fn)
                bound0 = bound
                if spec["flat"] and spec["chain"][spec["split"]:]:
                    # flat_bind(fn) == bind(fn).with_flat_map(identity): the flattening layer sits
                    # directly above the bound executor, the rest of the chain above it
                    pass
                for L in spec["chain"][spec["split"]:]:
                    bound = apply(bound, L)
                if spec.get("fork"):
                    # derive a second, unrelated chain from the same intermediate callable:
                    # customising a bound callable must not alter the callable it started from
                    other = bound0.with_map(lambda x: ("fork", x))
                if spec.get("shutdown_first"):
                    the_base.shutdown(True)
                f = bound(*spec["args"])
        except Exception as e:
            env.rec("side-raised", side, type(e).__name__, str(e)[:80])
            return
        try:
            f.result(200.0 if not spec.get("shutdown_first") else 5.0)
        except Exception:
            pass
        st = fut_state(f)
        from concurrent.futures import Future
        nested = st[0] == "val" and isinstance(st[1], Future)
        env.rec("side", side, [st[0], "<nested future>" if nested else (desc(st[1]) if st[0] == "val" else (desc(getattr(st[1], "tag", None)) if st[0] == "exc" else None))],
                calls[0], sorted(t.name for t in sim.threads[mark:] if not t.name.startswith("client")))
        if side == "B" and spec.get("fork") and bound0 is not None:
            # the intermediate callable, used again after two chains were derived from it
            before = calls[0]
            try:
                f0 = bound0(*spec["args"])
                try:
                    f0.result(200.0)
                except Exception:
                    pass
                st0 = fut_state(f0)
                nested0 = st0[0] == "val" and isinstance(st0[1], Future)
                env.rec("side", "B0", [st0[0], "<nested future>" if nested0 else (desc(st0[1]) if st0[0] == "val" else (desc(getattr(st0[1], "tag", None)) if st0[0] == "exc" else None))],
                        calls[0] - before, [])
            except Exception as e:
                env.rec("side-raised", "B0", type(e).__name__, str(e)[:80])

    # for A the flattening layer is innermost (directly over the executor the callable is bound to):
    # with a split > 0 only the equivalence "flat_bind == bind + with_flat_map(identity)" at the split is claimed
    run_side("A")
    run_side("B")
    if spec.get("fork"):
        run_side("A0")
    env.sleep(spec["settle"])


def check(spec, env):
    sim = env.sim
    if abnormal(sim):
        return []
    log = sim.log
    out = []
    sides = {e[4]: e for e in log if e[3] == "side"}

    def norm(x):
        return json.dumps(x).replace('"A0"', '"S"').replace('"B0"', '"S"').replace('"A"', '"S"').replace('"B"', '"S"')
    raised = {e[4]: e for e in log if e[3] == "side-raised"}
    shape = "+".join(L["t"] for L in spec["chain"]) or "-"
    if spec.get("shutdown_first"):
        # over a base that has been shut down both forms must behave alike: both raise the same
        # error from the call itself, or both return a future with the same outcome
        ra, rb = raised.get("A"), raised.get("B")
        if (ra is None) != (rb is None) or (ra is not None and ra[5] != rb[5]):
            out.append({"oracle": "equivalence", "sig": "bind-differs-after-shutdown|%s" % ("executor-raised" if ra is not None else "bound-raised"),
                        "msg": "base executor shut down before the call: executor.submit() %s, the bound callable %s; chain %s split %d"
                               % ("raised %s" % ra[5] if ra is not None else "returned a future (%r)" % (sides.get("A", [None] * 6)[5],),
                                  "raised %s" % rb[5] if rb is not None else "returned a future (%r)" % (sides.get("B", [None] * 6)[5],), shape, spec["split"])})
        if ra is not None or rb is not None:
            return out
    else:
        for s, e in raised.items():
            out.append({"oracle": "chain-raised", "sig": "chain-construction-raised|%s|%s" % (s, e[5]),
                        "msg": "side %s: building / calling the chain raised %s: %s; chain %s split %d" % (s, e[5], e[6], shape, spec["split"])})
    if "A" not in sides or "B" not in sides:
        return out
    a, b = sides["A"], sides["B"]
    # flat: with a non-empty tail after the split, A (flatten on top) and B (flatten at the split)
    # differ by construction unless the tail is empty or commutes; compare only the clean cases
    comparable = (not spec["flat"]) or spec["split"] == len(spec["chain"])
    if comparable:
        if norm(a[5]) != norm(b[5]):
            out.append({"oracle": "equivalence", "sig": "bind-outcome-differs|%s" % ("flat" if spec["flat"] else "plain"),
                        "msg": "executor chain gave %r, bound-callable chain gave %r; chain %s split %d fn %s fails %d"
                               % (a[5], b[5], shape, spec["split"], spec["fn_kind"], spec["fails"])})
        if a[6] != b[6]:
            out.append({"oracle": "equivalence", "sig": "bind-invocations-differ",
                        "msg": "executor chain invoked the callable %d times, bound-callable chain %d times; chain %s split %d" % (a[6], b[6], shape, spec["split"])})
    if spec["flat"]:
        for (s, e) in (("A", a), ("B", b)):
            if e[5][1] == "<nested future>":
                out.append({"oracle": "flatten", "sig": "flat-bind-not-flattened|%s" % s,
                            "msg": "side %s: a future returned by the callable was not flattened (result is a nested future); chain %s split %d" % (s, shape, spec["split"])})
    # an intermediate bound callable keeps behaving like its own executor chain after other
    # chains were derived from it (the callable's scripted failures have been used up by side B,
    # so the reference side A0 is compared on its final-attempt outcome shape only when fails == 0)
    if "B0" in sides and "A0" in sides and spec["fails"] == 0:
        a0, b0 = sides["A0"], sides["B0"]
        if norm(a0[5]).replace('"0"', "") != norm(b0[5]).replace('"0"', ""):
            out.append({"oracle": "equivalence", "sig": "intermediate-bound-callable-altered",
                        "msg": "after deriving further chains from it, the intermediate bound callable gave %r; the executor with the layers before bind gives %r; chain %s split %d"
                               % (b0[5], a0[5], shape, spec["split"])})
        elif b0[6] != a0[6]:
            out.append({"oracle": "equivalence", "sig": "intermediate-bound-callable-invocations",
                        "msg": "intermediate bound callable invoked the function %d times, its executor chain %d times" % (b0[6], a0[6])})
    # a name that belongs to the callable (not to any executor or layer of the chain) never shows up
    for (s_, e) in (("A", a), ("B", b)):
        bad = [n for n in e[7] if any(x in n for x in FOREIGN)]
        if bad:
            out.append({"oracle": "names", "sig": "thread-name-foreign|%s" % s_,
                        "msg": "side %s: thread(s) %r carry a name that was given to the callable, not to the executor or a layer; chain %r base name %r split %d fn %s"
                               % (s_, bad, spec["chain"], spec["base_name"], spec["split"], spec["fn_kind"])})
    # names
    want = expected_names(spec) if not spec.get("shutdown_first") else []   # a shut-down base creates no thread to look at
    for (s, e) in (("A", a), ("B", b)):
        names = e[7]
        for (prefix, nm) in want:
            if nm is None or nm == "default":
                continue   # the property speaks about names that were given
            # "appears in the names of the threads those layers create": the layer's thread is
            # recognised by its class prefix when present, the given name must appear in it
            cands = [n for n in names if n.startswith(prefix)] or names
            ok = any(nm in n for n in cands)
            if nm == "":
                # the empty name: the layer's thread is "<Class>-" and nothing else (not "-default")
                ok = any(n == prefix + "-" or n.startswith(prefix + "-_") or n.startswith(prefix + "-" + "_") for n in cands) if prefix != "ThreadPoolExecutor" else True
            if not ok:
                out.append({"oracle": "names", "sig": "thread-name|%s|%s|%s" % (s, prefix, "bound" if s == "B" and spec["split"] < len(spec["chain"]) else "executor"),
                            "msg": "side %s: expected the name %r in the name of a %s thread, threads created: %r; chain %r base name %r split %d" % (s, nm, prefix, names, spec["chain"], spec["base_name"], spec["split"])})
                break
    return out


def probes(spec, env):
    sim = env.sim
    log = sim.log
    threads = sum(len(e[7]) for e in log if e[3] == "side")
    pr = {"chain-length": len(spec["chain"]), "split-before-bind": spec["split"], "flat_bind": 1 if spec["flat"] else 0,
          "fn:" + spec["fn_kind"]: 1, "threads-created": threads, "retries": sum(1 for e in log if e[3] == "call" and e[5] > 1),
          "named-base": 1 if spec["base_name"] else 0, "plain-concurrent.futures-base": 1 if spec.get("plain_base") else 0,
          "callable-with-own-_name": 1 if spec.get("fn_named") and spec["fn_kind"] in ("object", "bound") else 0, "explicit-layer-names": sum(1 for L in spec["chain"] if L["name"]),
          "abnormal-runs": 1 if abnormal(sim) else 0}
    pr["_nontrivial"] = sim.preemptions > 0 and (threads > 0 or pr["retries"] > 0)
    return pr


def shrink(spec):
    def cp():
        return json.loads(json.dumps(spec))
    for i in range(len(spec["chain"])):
        s = cp()
        del s["chain"][i]
        s["split"] = min(s["split"], len(s["chain"]))
        yield s
    for k, v in (("fails", 0), ("flat", False), ("fn_kind", "function"), ("base_name", None), ("args", [])):
        if spec[k] != v:
            s = cp()
            s[k] = v
            yield s
    for i, L in enumerate(spec["chain"]):
        if L["name"]:
            s = cp()
            s["chain"][i]["name"] = None
            yield s
