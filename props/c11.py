"""C11 - shutdown: submit refuses afterwards, idempotent, propagates, joins, returns."""
import json

from harness import runner
from harness.env import build_stack
from harness.oracles import abnormal, deadlock_violations
from harness.stackgen import Fns, gen_layers

PROP = "C11"
PLAN = {"quick": {"runs": 10000, "wall_s": 90}, "thorough": {"runs": 300000, "wall_s": 1200}}
RULE = ("Each run: a random stack (1-3 layers of any type, optionally an AsyncioExecutor on top) over a scripted spy base that "
        "records shutdown(*args, **kwargs); the workload is brought to a drawn state (idle, queued, between retries with a "
        "1000 s sleep, polling with a 50 s interval, callable running) and then shut down from one thread with drawn "
        "wait / cancel_futures while submitters race it; shutdown is repeated. Non-trivial = a pre-emption and work in flight "
        "or a racing submit at shutdown time.")
ASSUMPTIONS = ["with two threads calling shutdown() at once only 'harmless' and 'base shut down exactly once' are judged (the call that lost the race returns early)",
               "'did not wait out a retry sleep or poll interval' = shutdown(wait=True) took no longer than all callable durations + 1 s (sleeps are 1000 s, intervals 50 s)"]
MSG = "cannot schedule new futures after shutdown"
LIB_THREADS = ("RetryExecutor", "PollExecutor", "ThrottleExecutor", "TimeoutExecutor")


def family(sig):
    return sig.rsplit("|", 1)[0]


def gen(rng, tier):
    depth = rng.choice([1, 1, 2, 2, 3])
    layers = gen_layers(rng, depth, nsubs=4, faults=False, fast=True)
    for L in layers:
        if L["t"] == "retry":
            L["sleep"] = 1000.0
            L["max_sleep"] = 5000
            L["exponent"] = 1
            L["max_attempts"] = rng.choice([2, 3])
        if L["t"] == "poll":
            L["interval"] = 50.0
            L["after"] = rng.choice([1, 2, 3])
        if L["t"] == "throttle":
            # blocking mode: submit() may wait for room - but never once the executor is shut down
            L["block"] = rng.random() < 0.3
    nsubs = rng.choice([0, 1, 2, 3, 4])
    subs = {}
    for s in range(nsubs + 2):
        subs[str(s)] = {"dur": rng.choice([0, 0.05, 0.2, 0.5]), "fail": rng.choice([0, 0, 1])}
    spec = {"layers": layers, "workers": rng.choice([1, 2]), "subs": subs, "nsubs": nsubs,
            "asyncio_top": rng.random() < 0.1,
            "shutdown_at": rng.choice([0, 0.02, 0.1, 0.3, 0.6]),
            "wait": rng.random() < 0.7, "cancel_futures": rng.choice([None, None, True, False]),
            "racers": rng.choice([0, 1, 2]), "repeat": rng.choice([1, 2]), "settle": 5.0,
            "shutters": rng.choice([1, 1, 1, 2]),
            # an inner executor of the chain (or the shared base) is shut down directly first, a
            # submit() on the outer one is then refused from *inside* it - after which shutdown() of
            # the outer executor, from another thread, must still return
            "inner_first": rng.random() < 0.12}
    if spec["inner_first"]:
        for L in layers:
            if L["t"] == "throttle":
                L["block"] = False     # (a blocking submit over a dead delegate waits for room that never comes: by specification)
    spec["sim"] = runner.draw_sim_cfg(rng, est=500)
    spec["sim"]["horizon_s"] = 500000
    return spec


def run(spec, env):
    from more_executors import Executors
    sim = env.sim
    fns = Fns(env)
    ex, chain = build_stack(env, {"kind": "spy", "n": spec["workers"]}, spec["layers"], fns.get())
    work_ex = ex
    if spec["asyncio_top"]:
        ex = Executors.with_asyncio(ex, loop=object())
    calls = {}

    def make_fn(s):
        sub = spec["subs"][str(s)]

        def fn():
            n = calls[s] = calls.get(s, 0) + 1
            env.rec("call", s, n)
            if sub["dur"]:
                sim.sleep(sub["dur"])
            env.rec("call-end", s, n)
            if n <= sub["fail"]:
                raise env.exc(("v", s, n), "ErrA")
            return ("v", s, n)
        fn.tag = s
        return fn

    for s in range(spec["nsubs"]):
        work_ex.submit(make_fn(s))
        env.rec("submitted", s)

    def racer(k):
        def body():
            env.await_("shutdown-begin", 2.0)
            s = spec["nsubs"] + k
            i = env.rec("submit", s)
            try:
                work_ex.submit(make_fn(s))
                env.rec("submit-ret", s, "ok", None, i)
            except RuntimeError as e:
                env.rec("submit-ret", s, "RuntimeError", str(e), i)
            except Exception as e:
                env.rec("submit-ret", s, type(e).__name__, str(e)[:80], i)
        return body

    def lib_alive():
        return sorted(t.name for t in sim.threads if t.status != "D" and t.name.startswith(LIB_THREADS + ("spy-worker",)))

    def second_shutter():
        # a second thread calling shutdown() at the same time: "further shutdown() calls are
        # harmless" and the base must still be shut down exactly once
        env.await_("shutdown-begin", 5.0)
        kw = {}
        if spec["cancel_futures"] is not None:
            kw["cancel_futures"] = spec["cancel_futures"]
        env.rec("shutdown2")
        try:
            ex.shutdown(spec["wait"], **kw)
        except Exception as exc:      # judged by the oracle, not a harness error
            env.rec("shutdown-raised", 2, type(exc).__name__)
        env.rec("shutdown2-ret")
        env.hit("shutdown2-ret")

    def shutter():
        if spec["shutdown_at"]:
            env.sleep(spec["shutdown_at"])
        kw = {}
        if spec["cancel_futures"] is not None:
            kw["cancel_futures"] = spec["cancel_futures"]
        for r in range(spec["repeat"]):
            i = env.rec("shutdown", r, spec["wait"], tuple(sorted(kw.items())))
            env.hit("shutdown-begin")
            try:
                ex.shutdown(spec["wait"], **kw)
            except Exception as exc:  # judged by the oracle, not a harness error
                env.rec("shutdown-raised", 1, type(exc).__name__)
            env.rec("shutdown-ret", r, lib_alive(), i)
        if spec.get("shutters", 1) > 1:
            # the call that lost the race returns early: inner executors are only guaranteed to
            # be shut down once the winning call has returned too
            env.await_("shutdown2-ret", 100000.0)
        # afterwards submit must refuse, on every executor of the chain
        for lvl, e in enumerate([ex] + (chain[1:] if True else [])):
            env.rec("post-submit-begin", type(e).__name__)
            try:
                if spec["asyncio_top"] and e is ex:
                    e.submit(make_fn(0))
                else:
                    e.submit(make_fn(0))
                env.rec("post-submit", type(e).__name__, "accepted", None)
            except RuntimeError as err:
                env.rec("post-submit", type(e).__name__, "RuntimeError", str(err))
            except Exception as err:
                env.rec("post-submit", type(e).__name__, type(err).__name__, str(err)[:80])

    if spec.get("inner_first") and len(chain) >= 2:
        def inner_first():
            k = (spec["nsubs"] * 7 + len(chain)) % (len(chain) - 1)
            env.rec("inner-shutdown", k)
            chain[k].shutdown(True)
            try:
                work_ex.submit(make_fn(0))
                env.rec("inner-submit", "accepted")
            except RuntimeError as e:
                env.rec("inner-submit", "RuntimeError")
            except Exception as e:
                env.rec("inner-submit", type(e).__name__)
        t_in = env.client(inner_first, "client-in")
        env.join(t_in)
    for k in range(spec["racers"]):
        env.client(racer(k))
    if spec.get("shutters", 1) > 1:
        env.client(second_shutter, "client-sd2")
    env.client(shutter, "client-sd")
    env.join_all()
    env.sleep(spec["settle"])
    env.rec("alive-at-end", lib_alive())


def check(spec, env):
    sim = env.sim
    dl = deadlock_violations(sim, include_client_blocked=True)
    if dl:
        return dl
    log = sim.log
    out = []
    types = "+".join(L["t"] for L in spec["layers"])
    cul = "+".join(sorted(set(L["t"] for L in spec["layers"])))
    sds = [e for e in log if e[3] == "shutdown"]
    srs = [e for e in log if e[3] == "shutdown-ret"]
    nbeg = [e for e in log if e[3] == "post-submit-begin"]
    nend = [e for e in log if e[3] == "post-submit"]
    sub_b = {e[0]: e for e in log if e[3] == "submit"}
    sub_r = set(e[7] for e in log if e[3] == "submit-ret")
    raised = sorted(set(e[5] for e in log if e[3] == "shutdown-raised"))
    if raised:
        return [{"oracle": "shutdown-returns", "sig": "shutdown-raised|%s|%s" % (cul, ",".join(raised)),
                 "msg": "shutdown() raised %s; layers %s" % (raised, types)}]
    if sim.outcome[0] in ("horizon", "stuck") and sds and len(srs) == len(sds) and (len(nbeg) > len(nend) or any(k not in sub_r for k in sub_b)):
        who = nbeg[len(nend)][4] if len(nbeg) > len(nend) else "racing"
        out.append({"oracle": "submit-after-shutdown", "sig": "submit-blocked-forever|%s|%s" % (cul, "after-shutdown" if len(nbeg) > len(nend) else "racing"),
                    "msg": "shutdown() returned, but a submit() (%s) %s never returned nor raised (outcome %s); layers %s; blocked: %r"
                           % (who, "issued afterwards" if len(nbeg) > len(nend) else "racing with it", sim.outcome[0], spec["layers"], sim.final_blocked)})
        return out
    if sim.outcome[0] in ("horizon", "stuck") or (sds and len(srs) < len(sds)):
        blocked = [b for b in sim.final_blocked if b[0].startswith("client-sd")]
        out.append({"oracle": "shutdown-returns", "sig": "shutdown-never-returned|%s|wait=%s" % (cul, spec["wait"]),
                    "msg": "shutdown(wait=%s) did not return (outcome %s); layers %s; blocked: %r; stacks: %r"
                           % (spec["wait"], sim.outcome[0], types, sim.final_blocked, {k: v[:6] for k, v in sim.final_stacks.items()})})
        return out
    if abnormal(sim) or not srs:
        return out
    # propagation: exactly one shutdown at the base, same arguments
    base_sd = [e for e in log if e[3] == "spy-shutdown"]
    want_kw = tuple(sorted(({"cancel_futures": spec["cancel_futures"]} if spec["cancel_futures"] is not None else {}).items()))
    if spec.get("inner_first"):
        pass    # somebody shut an inner executor down directly: what the base sees is no longer determined by the outer call
    elif len(base_sd) != 1:
        out.append({"oracle": "propagation", "sig": "base-shutdown-count|%s|%d" % (cul, len(base_sd)),
                    "msg": "the wrapped base executor saw %d shutdown() calls for %d shutdown() calls on the stack; layers %s" % (len(base_sd), len(sds), types)})
    else:
        b = base_sd[0]
        if b[5] != bool(spec["wait"]) or tuple(tuple(x) for x in b[6]) != want_kw:
            out.append({"oracle": "propagation", "sig": "base-shutdown-args|%s" % cul,
                        "msg": "stack shut down with wait=%r %r but the base saw wait=%r %r; layers %s" % (spec["wait"], want_kw, b[5], b[6], types)})
    # joined (with two concurrent shutdown() calls the one that lost the race returns early)
    if spec["wait"] and spec.get("shutters", 1) == 1:
        alive = srs[0][5]
        if alive:
            out.append({"oracle": "join", "sig": "thread-alive-after-shutdown|%s" % ",".join(sorted(set(a.rstrip("0123456789-_") for a in alive))),
                        "msg": "shutdown(wait=True) returned while worker threads were still alive: %r; layers %s" % (alive, types)})
    # did not wait out a sleep / interval (not judged with a blocking-mode throttle: a submit()
    # waiting for room holds the shutdown gate by design, so shutdown() waits as long as that does)
    blocking = any(L["t"] == "throttle" and L.get("block") for L in spec["layers"])
    if spec["wait"] and spec.get("shutters", 1) == 1 and not blocking:
        total = sum(s["dur"] * (1 + s["fail"]) for s in spec["subs"].values())
        took = (srs[0][1] - sds[0][1]) / 1e9
        if took > total + 1.0:
            out.append({"oracle": "shutdown-prompt", "sig": "shutdown-waited|%s" % cul,
                        "msg": "shutdown(wait=True) took %.3f virtual s; all callables together need %.3fs - it waited out a retry sleep or poll interval; layers %s"
                               % (took, total, types)})
    # afterwards submit refuses with the documented error
    for e in log:
        if e[3] == "post-submit":
            if e[5] != "RuntimeError" or e[6] != MSG:
                out.append({"oracle": "submit-after-shutdown", "sig": "post-shutdown-submit|%s|%s" % (e[4], e[5]),
                            "msg": "after shutdown() returned, %s.submit() %s (%r) instead of raising RuntimeError(%r); layers %s"
                                   % (e[4], "was accepted" if e[5] == "accepted" else "raised " + e[5], e[6], MSG, types)})
    # racing submit: that error or a future
    for e in log:
        if e[3] == "submit-ret" and e[5] not in ("ok",):
            if e[5] != "RuntimeError" or e[6] != MSG:
                out.append({"oracle": "racing-submit", "sig": "racing-submit-raised|%s|%s" % (cul, e[5]),
                            "msg": "a submit() racing with shutdown() raised %s(%r); layers %s" % (e[5], e[6], types)})
    return out


def probes(spec, env):
    sim = env.sim
    log = sim.log
    sds = [e for e in log if e[3] == "shutdown"]
    inflight = 0
    if sds:
        t0 = sds[0][0]
        started = set((e[4], e[5]) for e in log if e[3] == "call" and e[0] < t0)
        ended = set((e[4], e[5]) for e in log if e[3] == "call-end" and e[0] < t0)
        inflight = len(started - ended)
    pr = {"callables-running-at-shutdown": inflight,
          "racing-submits": sum(1 for e in log if e[3] == "submit"),
          "racing-submit-refused": sum(1 for e in log if e[3] == "submit-ret" and e[5] == "RuntimeError"),
          "wait=True": 1 if spec["wait"] else 0, "cancel_futures-passed": 1 if spec["cancel_futures"] is not None else 0,
          "repeated-shutdown": 1 if spec["repeat"] > 1 else 0, "abnormal-runs": 1 if abnormal(sim) else 0}
    for L in spec["layers"]:
        pr["layer:" + L["t"]] = 1
    pr["_nontrivial"] = sim.preemptions > 0 and (inflight > 0 or pr["racing-submits"] > 0 or spec["nsubs"] > 0)
    return pr


def shrink(spec):
    def cp():
        return json.loads(json.dumps(spec))
    for i in range(len(spec["layers"])):
        if len(spec["layers"]) > 1:
            s = cp()
            del s["layers"][i]
            yield s
    if spec["nsubs"] > 0:
        s = cp()
        s["nsubs"] -= 1
        yield s
    for k, v in (("racers", 0), ("repeat", 1), ("asyncio_top", False), ("cancel_futures", None), ("shutdown_at", 0), ("shutters", 1)):
        if spec[k] != v:
            s = cp()
            s[k] = v
            yield s
