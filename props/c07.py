"""C07 - throttle: never more than count in flight, FIFO hand-over, no idle capacity, blocking mode."""
import json

from harness import runner
from harness.oracles import abnormal
from harness.stackrun import StackRun

PROP = "C07"
PLAN = {"quick": {"runs": 12000, "wall_s": 90}, "thorough": {"runs": 300000, "wall_s": 1200}}
RULE = ("Each run: a ThrottleExecutor over a scripted spy delegate (8 workers, so only the throttle limits), count drawn "
        "from {0, 1, 2, 5, None, callable with a scripted value sequence, callable raising at call k}, blocking or "
        "non-blocking, 1-3 submitter threads x 1-5 submissions with durations 0.05-0.5 s, cancels of queued futures. "
        "Oracles: admission safety at every hand-over, FIFO, no hand-over / blocked submit released only by a fallback "
        "timer while capacity and a queued job coexisted (static counts, stall-free), blocking submit works for every "
        "count. Non-trivial = a pre-emption and at least one moment with the queue non-empty.")
ASSUMPTIONS = ["a lowered dynamic count need not evict; a raised one may take the periodic re-check (2 s idle / 30 s busy)",
               "blocking mode with a count that can never admit (0) is excluded: it blocks by specification",
               "admission is judged against futures that had certainly not finished (set_result not yet begun)"]


def family(sig):
    return sig.rsplit("|", 1)[0]


def gen(rng, tier):
    block = rng.random() < 0.4
    ck = rng.choice(["static", "static", "static", "none", "dynamic", "raising"])
    if ck == "static":
        count = rng.choice([1, 1, 2, 2, 5] + ([] if block else [0]))
    elif ck == "none":
        count = None
    elif ck == "dynamic":
        count = {"seq": [rng.choice([1, 2, 3, None] if not block else [1, 2, 3]) for _ in range(rng.choice([2, 4, 8]))]}
    else:
        seq = [rng.choice([1, 2, 3]) for _ in range(rng.choice([3, 6]))]
        for _ in range(rng.choice([1, 2])):
            seq[rng.randrange(1, len(seq))] = "raise"
        count = {"seq": seq}
        if not block and rng.random() < 0.3:
            # "no limit" (None) as the last good answer before the callable raises
            k = seq.index("raise")
            seq[k - 1] = None
    nclients = rng.choice([1, 2, 3])
    subs = {}
    clients = []
    sid = 0
    for c in range(nclients):
        ops = []
        mine = []
        for _ in range(rng.choice([1, 2, 3, 5])):
            if rng.random() < 0.3:
                ops.append(["sleep", rng.choice([0.05, 0.1, 0.3])])
            subs[str(sid)] = {"script": [rng.choice(["ok", "ok", "ErrA"])], "dur": rng.choice([0.05, 0.1, 0.2, 0.5]),
                              # a done-callback of the caller's that takes (virtual) time: the slot must be
                              # free for the next job as soon as the delegate future is done, not after it
                              "cb_dur": rng.choice([0, 0, 0, 0, 0.3])}
            ops.append(["submit", sid])
            mine.append(sid)
            sid += 1
            if rng.random() < 0.2:
                ops.append(["cancel", rng.choice(mine)])
        clients.append(ops)
    spec = {"kind": ck, "base": {"kind": "spy", "n": 8}, "layers": [{"t": "throttle", "count": count, "block": block}],
            "subs": subs, "clients": clients, "aux": False}
    total = sum(s["dur"] for s in subs.values())
    spec["settle"] = round(total + 100.0, 3)
    spec["sim"] = runner.draw_sim_cfg(rng, est=500, stall_ok=True)
    spec["sim"]["horizon_s"] = 100000
    # (drawn last) blocking mode with callables that outlast the 30 s fallback timer: a wake-up lost
    # between blocked submitters is then not papered over by the next hand-over a moment later
    if block and rng.random() < 0.4:
        for k in sorted(subs):
            subs[k]["dur"] = rng.choice([60.0, 100.0])
        spec["settle"] = round(sum(x["dur"] for x in subs.values()) + 100.0, 3)
    return spec


def run(spec, env):
    sr = StackRun(spec, env)
    env.objs["sr"] = sr
    try:
        sr.build()
    except Exception as e:
        env.rec("build-raised", type(e).__name__, str(e)[:80])
        return
    orig = sr.submit

    def submit(s):
        i = env.rec("op", "submit-try", s)
        try:
            f = orig(s)
            d = spec["subs"][str(s)].get("cb_dur")
            if f is not None and d:
                def slow_cb(_f, d=d, s=s):
                    env.rec("slow-cb", s)
                    env.sim.sleep(d)
                    env.rec("slow-cb-end", s)
                f.add_done_callback(slow_cb)
            return f
        except Exception as e:  # anything but the shutdown RuntimeError handled in StackRun.submit
            env.rec("op-ret", "submit", s, "raised", type(e).__name__ + ": " + str(e)[:60], i)
            return None
    sr.submit = submit
    sr.run_clients()
    env.sleep(spec["settle"])
    sr.finals()


def _count_values(spec, log, throttle_tid):
    """Per hand-over admission limits for dynamic counts.  The executor keeps ONE 'last value'
    shared by the hand-over thread and by submit() callers, so the limit in force for an
    iteration of the hand-over thread is some value the count callable returned to the executor
    (to any thread) from that iteration's own call onwards - or, if that call raised, the last
    good value before it.  Returns [(seq of the hand-over thread's call, seq, value), ...] of all
    count events so that check() can take the most permissive admissible value."""
    out = []
    last_good = None
    for e in log:
        if e[3] == "ufn" and e[4] == "count":
            v = e[6]
            if v != "raise":
                last_good = v
            out.append((e[0], e[2] == throttle_tid, last_good if v == "raise" else v))
    return out


def check(spec, env):
    sim = env.sim
    if abnormal(sim):
        return []
    log = sim.log
    out = []
    L = spec["layers"][0]
    kind = spec["kind"]
    block = L["block"]
    mode = "block" if block else "nonblock"
    static = kind in ("static", "none")
    count = L["count"] if static else None
    if any(e[3] == "build-raised" for e in log):
        e = [e for e in log if e[3] == "build-raised"][0]
        return [{"oracle": "construct", "sig": "constructor-raised|%s|%s" % (kind, e[4]),
                 "msg": "ThrottleExecutor(count=%r, block=%r) raised %s: %s" % (L["count"], block, e[4], e[5])}]
    # (4a) submit() works for every count value
    for e in log:
        if e[3] == "op-ret" and e[4] == "submit" and e[6] == "raised":
            out.append({"oracle": "submit-raised", "sig": "submit-raised|%s|%s|%s" % (kind, mode, e[7].split(":")[0]),
                        "msg": "submit() on ThrottleExecutor(count=%r, block=%r) raised %s" % (L["count"], block, e[7])})
            break
    handed = [e for e in log if e[3] == "spy-submit"]
    # earliest moment a handed-over future may have been finished: start of set_result, or
    # start of the cancel() call that returned True (its callbacks run inside that call)
    donemark = {e[4]: e[0] for e in log if e[3] == "spy-done"}
    pend = {}
    for e in log:
        if e[3] == "spy-cancel":
            pend[(e[4], e[2])] = e[0]
        elif e[3] == "spy-cancel-ret":
            st = pend.pop((e[4], e[2]), e[0])
            if e[5]:
                donemark[e[4]] = min(donemark.get(e[4], 1 << 60), st)
    throttle_tid = handed[0][2] if handed else None
    dyn = _count_values(spec, log, throttle_tid) if not static and handed else []
    # (1) admission safety at every hand-over
    for h in handed:
        inflight = sum(1 for g in handed if g[0] < h[0] and donemark.get(g[4], 1 << 60) > h[0])
        if static:
            v = count
        else:
            own = [x for x in dyn if x[0] < h[0] and x[1]]
            if not own:
                continue
            cands = [x[2] for x in dyn if own[-1][0] <= x[0] < h[0]]
            v = None if any(c is None for c in cands) else max(cands)
        if v is not None and inflight >= v:
            out.append({"oracle": "over-limit", "sig": "over-limit|%s|%s" % (kind, mode),
                        "msg": "hand-over of %s (submission %r) while %d earlier futures had certainly not finished; limit in force %r (count spec %r)"
                               % (h[4], h[5], inflight, v, L["count"])})
            break
    # (2) FIFO
    sub_iv = {}
    rets = {e[8]: e for e in log if e[3] == "op-ret" and e[4] == "submit" and len(e) > 8}
    for e in log:
        if e[3] == "op" and e[4] == "submit" and e[0] in rets and rets[e[0]][6] == "ok":
            sub_iv[e[5]] = (e[0], rets[e[0]][0])
    cancelled = set(e[5] for e in log if e[3] == "op" and e[4] == "cancel")
    hand_seq = {h[5]: h[0] for h in handed}
    ss = sorted(sub_iv)
    for a in ss:
        for b in ss:
            if a == b or a in cancelled or b in cancelled:
                continue
            if sub_iv[a][1] < sub_iv[b][0] and a in hand_seq and b in hand_seq and hand_seq[a] > hand_seq[b]:
                out.append({"oracle": "fifo", "sig": "fifo-violated|%s|%s" % (kind, mode),
                            "msg": "submit(%d) returned (event %d) before submit(%d) was invoked (event %d) but %d reached the delegate first"
                                   % (a, sub_iv[a][1], b, sub_iv[b][0], b)})
                break
        else:
            continue
        break
    # (3)/(4b) static count, stall-free: nobody may be released by a fallback timer while the
    # configuration already allowed progress (at a clock jump nobody is runnable: state is exact)
    if static and not spec["sim"].get("stall_p") and (count is None or count > 0):
        fin = {e[4]: e[0] for e in log if e[3] == "spy-fin"}
        for e in log:
            if e[3] in ("spy-cancel-ret",) and e[5]:
                fin.setdefault(e[4], e[0])
        true_cancels = {}
        cr = {e[8]: e for e in log if e[3] == "op-ret" and e[4] == "cancel"}
        for j in log:
            if j[3] != "clock-jump":
                continue
            q = j[0]
            woken = j[5]
            n_enq = sum(1 for (a, b) in sub_iv.values() if b < q)
            n_hand = sum(1 for h in handed if h[0] < q)
            canc_queued = set()
            for (opseq, c) in cr.items():
                # a cancel() that returned True took its job out of the queue; its own done-callbacks
                # (which may take time) run inside the call, so it counts from the call's beginning
                # (a repeated cancel() of the same future answers True again and removes nothing more)
                if opseq < q and c[6] is True and c[5] not in [h[5] for h in handed if h[0] < c[0]]:
                    canc_queued.add(c[5])
            n_canc_queued = len(canc_queued)
            queued = n_enq - n_hand - n_canc_queued
            inflight = sum(1 for h in handed if h[0] < q and fin.get(h[4], 1 << 60) > q)
            # at a clock jump nobody is runnable, so the state is exact: jobs queued while fewer than
            # count delegate futures are still not done means the hand-over thread sleeps on work it
            # could do (e.g. the slot is only freed after the caller's own done-callbacks returned)
            inflight_d = sum(1 for h in handed if h[0] < q and donemark.get(h[4], 1 << 60) > q)
            if not block and queued > 0 and (count is None or inflight_d < count):
                out.append({"oracle": "idle-capacity", "sig": "idle-capacity-while-everybody-sleeps|%s|%s" % (kind, mode),
                            "msg": "at t=%.3fs nobody was runnable, %d job(s) were queued and only %d of %r handed-over futures were still not done: "
                                   "the hand-over thread was asleep on work it could do (woken next: %r)" % (j[1] / 1e9, queued, inflight_d, count, [w[0] for w in woken])})
                return out
            for w in woken:
                site = w[2] or ""
                if "throttle.py" not in site or w[1] != "SimEvent":
                    continue
                if w[0].startswith("ThrottleExecutor") and queued > 0 and (count is None or inflight < count):
                    out.append({"oracle": "idle-capacity", "sig": "handover-waited-for-timer|%s|%s" % (kind, mode),
                                "msg": "at t=%.3fs the hand-over thread was woken only by its fallback timer (jump of %.3fs) while %d job(s) were queued "
                                       "and %d of %r were in flight" % (j[1] / 1e9, j[4] / 1e9, queued, inflight, count)})
                    return out
                if w[0].startswith("client") and block and (count is None or queued < count):
                    out.append({"oracle": "blocked-submit", "sig": "submit-waited-for-timer|%s|%s" % (kind, mode),
                                "msg": "at t=%.3fs a blocked submit() was released only by its 30 s fallback timer (jump of %.3fs) although the "
                                       "queue held %d < count=%r entries" % (j[1] / 1e9, j[4] / 1e9, queued, count)})
                    return out
    return out


def probes(spec, env):
    sim = env.sim
    log = sim.log
    handed = sum(1 for e in log if e[3] == "spy-submit")
    nsub = sum(1 for e in log if e[3] == "op-ret" and e[4] == "submit" and e[6] == "ok")
    pr = {"count:" + spec["kind"]: 1, "mode:" + ("block" if spec["layers"][0]["block"] else "nonblock"): 1,
          "hand-overs": handed, "submits": nsub,
          "fault:count-callable-raised": sum(1 for e in log if e[3] == "ufn" and e[4] == "count" and e[6] == "raise"),
          "count-callable-calls": sum(1 for e in log if e[3] == "ufn" and e[4] == "count"),
          "cancel-of-queued->True": sum(1 for e in log if e[3] == "op-ret" and e[4] == "cancel" and e[6] is True),
          "clock-jumps-waking-throttle-timer": sum(1 for e in log if e[3] == "clock-jump" and any("throttle.py" in (w[2] or "") for w in e[5])),
          "abnormal-runs": 1 if abnormal(sim) else 0}
    # queue non-empty at some moment: more submits returned than hand-overs at some point
    q = 0
    nonempty = False
    for e in log:
        if e[3] == "op-ret" and e[4] == "submit" and e[6] == "ok":
            q += 1
        elif e[3] == "spy-submit":
            q -= 1
        if q >= 2:
            nonempty = True
    pr["queue-held-2+-jobs"] = 1 if nonempty else 0
    pr["_nontrivial"] = sim.preemptions > 0 and nonempty
    return pr


def shrink(spec):
    def cp():
        return json.loads(json.dumps(spec))
    for c in range(len(spec["clients"])):
        if len(spec["clients"]) > 1:
            s = cp()
            del s["clients"][c]
            yield s
    for c in range(len(spec["clients"])):
        for o in range(len(spec["clients"][c])):
            s = cp()
            del s["clients"][c][o]
            if s["clients"][c]:
                yield s
    for k, sub in spec["subs"].items():
        if sub["dur"] != 0.05:
            s = cp()
            s["subs"][k]["dur"] = 0.05
            yield s
