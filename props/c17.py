"""C17 - f_proxy is transparent for forwarded operations; f_nocancel shields cancel
(schedule / time facets; the operand table is a fixed sample, not an input-space claim)."""
import collections
import json
import math
import operator
from concurrent.futures import Future, TimeoutError as FTimeout

from harness import runner
from harness.env import SpyFuture
from harness.oracles import abnormal
from harness.stackrun import fut_state, state_desc

PROP = "C17"
PLAN = {"quick": {"runs": 16000, "wall_s": 90}, "thorough": {"runs": 300000, "wall_s": 1200}}
RULE = ("Each run: one (operation, operand, value) triple from a fixed table covering every forwarded dunder plus attribute / method "
        "access (including values for which the operation raises), or one non-forwarded operation (bool, repr, str, ==, hash, unknown "
        "dunder lookup), applied to f_proxy(f) where f is resolved, failed, or pending and resolved by another thread at a scheduler-"
        "chosen point, optionally with timeout=tau; or an f_nocancel wrapper raced by cancel() calls and the inner completion. "
        "Non-trivial = a pre-emption and an operation issued while f was still pending.")
ASSUMPTIONS = ["'for all operand values' is an input-space claim: the fixed table samples it; the blocking / non-blocking / timeout / cross-thread facets are what the simulation decides"]
SLACK = 0.005

class _Pt(collections.namedtuple("Pt", ["x", "y"])):
    """a namedtuple result (f_zip's results are namedtuples too): _asdict / _fields / _replace"""
    __slots__ = ()


class _Obj(object):
    """a user object with a single-underscore member and method"""

    def __init__(self):
        self._private = 41
        self.public = 42

    def _helper(self):
        return "helped"

    def __repr__(self):
        return "Obj()"


VALUES = {
    "int": 7, "neg": -3, "float": 2.5, "str": "hello", "list": [3, 1, 2], "dict": {"a": 1, "b": 2}, "tuple": (1, 2, 3),
    "set": {1, 2}, "none": None, "bytes": b"ab", "complex": 1 + 2j, "zero": 0,
    "namedtuple": _Pt(1, 2), "object": _Obj(),
}
# (name, function(obj), applicable value keys or None for all)
OPS = [
    ("len", lambda o: len(o)),
    ("getitem0", lambda o: o[0]),
    ("getitem_a", lambda o: o["a"]),
    ("setitem", lambda o: operator.setitem(o, 0, 9)),
    ("delitem", lambda o: operator.delitem(o, 0)),
    ("iter", lambda o: list(iter(o))),
    ("contains", lambda o: 1 in o),
    ("contains_seq", lambda o: (1, 2) in o),
    ("add", lambda o: o + 2),
    ("add_str", lambda o: o + "x"),
    ("sub", lambda o: o - 2),
    ("mul", lambda o: o * 2),
    ("truediv", lambda o: o / 2),
    ("div0", lambda o: o / 0),
    ("floordiv", lambda o: o // 2),
    ("mod", lambda o: o % 2),
    ("divmod", lambda o: divmod(o, 2)),
    ("pow", lambda o: o ** 2),
    ("lshift", lambda o: o << 1),
    ("rshift", lambda o: o >> 1),
    ("and", lambda o: o & 3),
    ("xor", lambda o: o ^ 3),
    ("or", lambda o: o | 3),
    ("neg", lambda o: -o),
    ("pos", lambda o: +o),
    ("abs", lambda o: abs(o)),
    ("invert", lambda o: ~o),
    ("complex", lambda o: complex(o)),
    ("int", lambda o: int(o)),
    ("float", lambda o: float(o)),
    ("round", lambda o: round(o)),
    ("round1", lambda o: round(o, 1)),
    ("trunc", lambda o: math.trunc(o)),
    ("floor", lambda o: math.floor(o)),
    ("ceil", lambda o: math.ceil(o)),
    ("attr_upper", lambda o: o.upper()),
    ("attr_keys", lambda o: sorted(o.keys())),
    ("attr_missing", lambda o: o.no_such_attribute),
    ("attr_real", lambda o: o.real),
    ("attr_public", lambda o: o.public),
    ("attr__private", lambda o: o._private),
    ("attr__helper", lambda o: o._helper()),
    ("attr__fields", lambda o: o._fields),
    ("attr__asdict", lambda o: sorted(o._asdict().items())),
    ("attr__replace", lambda o: tuple(o._replace(x=5))),
]
NONBLOCKING = [
    ("bool", lambda p: bool(p)),
    ("repr", lambda p: isinstance(repr(p), str)),
    ("str", lambda p: isinstance(str(p), str)),
    ("eq", lambda p: (p == 1) in (True, False)),
    ("hash", lambda p: isinstance(hash(p), int)),
    ("dunder", lambda p: _no_attr(p, "__fspath__")),
    ("dunder2", lambda p: _no_attr(p, "__enter__")),
]


def _no_attr(p, name):
    try:
        getattr(p, name)
        return "has"
    except AttributeError:
        return "AttributeError"


def family(sig):
    return sig.rsplit("|", 1)[0]


def gen(rng, tier):
    mode = rng.choice(["op", "op", "op", "nonblocking", "nocancel"])
    spec = {"mode": mode, "op": rng.randrange(len(OPS)), "nb": rng.randrange(len(NONBLOCKING)), "val": rng.choice(sorted(VALUES)),
            "state": rng.choice(["resolved", "failed", "pending", "pending", "never"]) if mode != "nocancel" else rng.choice(["resolved", "failed", "pending", "pending", "never", "ext-cancel", "ext-cancel"]),
            "resolve_at": rng.choice([0, 0.05, 0.1, 0.5]), "timeout": rng.choice([None, None, 0, 0.0, 0.2, 1.0, 30.0]),
            "resolve_exc": rng.random() < 0.2, "attr_exc": rng.random() < 0.25,
            "ncancel": rng.choice([1, 2, 3]), "cancel_at": rng.choice([0, 0.02, 0.05, 0.1]), "settle": 3.0}
    # the shielded future may itself be a proxy (f_nocancel(f_proxy(f))): the wrapper still mirrors f
    spec["via_proxy"] = mode == "nocancel" and rng.random() < 0.4
    if spec["state"] == "never" and spec["timeout"] is None and mode == "op":
        spec["timeout"] = 1.0
    spec["sim"] = runner.draw_sim_cfg(rng, est=200)
    spec["sim"]["horizon_s"] = 5000
    return spec


def _fresh(key):
    v = VALUES[key]
    if isinstance(v, (list, dict, set)):
        return type(v)(v)
    return v


def _outcome(fn, obj):
    try:
        r = fn(obj)
        return ("val", repr(r))
    except Exception as e:
        return ("exc", type(e).__name__)


def run(spec, env):
    from more_executors import futures as F
    sim = env.sim
    inner = SpyFuture(env, "inner")
    mode = spec["mode"]
    state = spec["state"]
    if mode == "nocancel":
        return run_nocancel(spec, env, inner)
    # an AttributeError as the future's exception is the edge case proxy.__getattr__ singles out
    inner_exc = AttributeError("scripted attribute error") if spec.get("attr_exc") else env.exc(("inner",))
    if state == "resolved":
        inner.set_running_or_notify_cancel()
        inner.set_result(_fresh(spec["val"]))
    elif state == "failed":
        inner.set_running_or_notify_cancel()
        inner.set_exception(inner_exc)
    kw = {}
    if spec["timeout"] is not None:
        kw["timeout"] = spec["timeout"]
    p = F.f_proxy(inner, **kw)

    def resolver():
        if state not in ("pending",):
            return
        env.sleep(spec["resolve_at"])
        env.rec("resolve")
        if inner.set_running_or_notify_cancel():
            if spec["resolve_exc"]:
                inner.set_exception(inner_exc)
            else:
                inner.set_result(_fresh(spec["val"]))
        env.rec("resolve-ret")

    def user():
        if mode == "nonblocking":
            (name, fn) = NONBLOCKING[spec["nb"]]
            i = env.rec("nb-op", name, inner.done())
            try:
                r = fn(p)
                env.rec("nb-ret", name, "val", repr(r), inner.done(), i)
            except Exception as e:
                env.rec("nb-ret", name, "exc", type(e).__name__, inner.done(), i)
            return
        (name, fn) = OPS[spec["op"]]
        i = env.rec("op", name, inner.done())
        try:
            r = fn(p)
            env.rec("op-ret", name, "val", repr(r), i)
        except FTimeout:
            env.rec("op-ret", name, "timeout", None, i)
        except Exception as e:
            env.rec("op-ret", name, "exc", type(e).__name__ if not (e is inner_exc) else "INNER", i)

    env.client(resolver, "client-r")
    env.client(user, "client-u")
    env.join_all()
    env.sleep(spec["settle"])


def run_nocancel(spec, env, inner):
    from more_executors import futures as F
    sim = env.sim
    w = F.f_nocancel(F.f_proxy(inner) if spec.get("via_proxy") else inner)
    inner_exc = env.exc(("inner",))

    def resolver():
        if spec["state"] == "never":
            return
        env.sleep(spec["resolve_at"] if spec["state"] in ("pending", "ext-cancel") else 0)
        env.rec("resolve")
        if spec["state"] == "ext-cancel":
            # somebody else cancels the inner future directly: the wrapper mirrors that, and its
            # own cancel() must keep answering False
            if Future.cancel(inner):
                inner.set_running_or_notify_cancel()
        elif inner.set_running_or_notify_cancel():
            if spec["state"] == "failed" or spec["resolve_exc"]:
                inner.set_exception(inner_exc)
            else:
                inner.set_result(("v",))
        env.rec("resolve-ret")

    def canceller():
        env.sleep(spec["cancel_at"])
        for _ in range(spec["ncancel"]):
            i = env.rec("cancel")
            try:
                r = w.cancel()
            except Exception as e:
                r = "raised " + type(e).__name__
            env.rec("cancel-ret", r, i)
            sim.yield_point("user")

    env.client(resolver, "client-r")
    env.client(canceller, "client-x")
    env.join_all()
    env.sleep(spec["settle"])
    env.rec("final", state_desc(fut_state(w)), state_desc(fut_state(inner)), inner.cancel_calls)
    env.objs["w_is_inner_outcome"] = (fut_state(w)[0] == fut_state(inner)[0]) and (
        fut_state(w)[0] in ("pending", "cancelled") or fut_state(w)[1] is fut_state(inner)[1])


def check(spec, env):
    sim = env.sim
    if abnormal(sim):
        return []
    log = sim.log
    out = []
    mode = spec["mode"]
    slack = int((SLACK + sim.clock_reads * sim.tick_ns / 1e9) * 1e9)
    if mode == "nocancel":
        for e in log:
            if e[3] == "cancel-ret" and e[4] is not False:
                out.append({"oracle": "nocancel", "sig": "nocancel-cancel-returned|%s" % (e[4],), "msg": "f_nocancel(f).cancel() returned %r" % (e[4],)})
        fin = [e for e in log if e[3] == "final"]
        if fin:
            f = fin[0]
            if f[6]:
                out.append({"oracle": "nocancel", "sig": "nocancel-pierced", "msg": "%d cancel() calls reached the inner future through f_nocancel" % f[6]})
            if not env.objs.get("w_is_inner_outcome"):
                out.append({"oracle": "nocancel", "sig": "nocancel-not-mirroring|%s|%s" % (f[4][0], f[5][0]),
                            "msg": "f_nocancel wrapper ended %r while the inner future ended %r" % (f[4], f[5])})
        return out
    if mode == "nonblocking":
        op = [e for e in log if e[3] == "nb-op"]
        ret = [e for e in log if e[3] == "nb-ret"]
        if op and ret:
            o, r = op[0], ret[0]
            # never blocks: no virtual time may pass inside the call, and it must not have waited for resolution
            if r[1] - o[1] > slack:
                out.append({"oracle": "nonblocking", "sig": "blocked|%s" % o[4],
                            "msg": "%s on a proxy took %.6f virtual s (future %s when called): it blocked" % (o[4], (r[1] - o[1]) / 1e9, "done" if o[5] else "pending")})
            expect = {"bool": ("val", "True"), "repr": ("val", "True"), "str": ("val", "True"), "eq": ("val", "True"), "hash": ("val", "True"),
                      "dunder": ("val", "'AttributeError'"), "dunder2": ("val", "'AttributeError'")}[o[4]]
            if (r[5], r[6]) != expect:
                out.append({"oracle": "nonblocking", "sig": "nonforwarded-op-result|%s" % o[4],
                            "msg": "%s on a proxy gave %r, expected %r" % (o[4], (r[5], r[6]), expect)})
        return out
    # forwarded operation
    op = [e for e in log if e[3] == "op"]
    ret = [e for e in log if e[3] == "op-ret"]
    if not op or not ret:
        return out
    o, r = op[0], ret[0]
    name = o[4]
    state = spec["state"]
    res = [e for e in log if e[3] == "resolve"]   # resolution had at least begun
    resolved_before_ret = state in ("resolved", "failed") or (res and res[0][0] < r[0])
    fails = state == "failed" or (state == "pending" and spec["resolve_exc"])
    tau = spec["timeout"]
    got = (r[5], r[6])
    if got[0] == "timeout":
        # legitimate only if the future was not resolved within tau of the call, and never earlier than tau
        if tau is None:
            out.append({"oracle": "timeout", "sig": "timeout-without-timeout|%s" % name, "msg": "%s raised TimeoutError on a proxy without timeout" % name})
        else:
            waited = r[1] - o[1]
            if waited < int(tau * 1e9):
                out.append({"oracle": "timeout", "sig": "timeout-early", "msg": "%s timed out after %.6fs, configured timeout %.3fs" % (name, waited / 1e9, tau)})
            if state in ("resolved", "failed") or (state == "pending" and spec["resolve_at"] + 0.01 < tau):
                out.append({"oracle": "timeout", "sig": "timeout-although-resolved|%s" % name,
                            "msg": "%s timed out (tau=%.3fs) although the future was resolved at %.3fs" % (name, tau, spec["resolve_at"])})
            if not spec["sim"].get("stall_p") and waited > int(tau * 1e9) + slack:
                out.append({"oracle": "timeout", "sig": "timeout-late", "msg": "%s timed out only after %.6fs, configured %.3fs" % (name, waited / 1e9, tau)})
        return out
    if state == "never" or (state == "pending" and not resolved_before_ret):
        out.append({"oracle": "blocking", "sig": "returned-before-resolution|%s" % name,
                    "msg": "%s on a proxy of a pending future returned %r before the future was resolved" % (name, got)})
        return out
    if tau is not None and state == "pending" and spec["resolve_at"] > tau + 0.01:
        out.append({"oracle": "timeout", "sig": "timeout-ignored|%s" % name,
                    "msg": "%s returned %r although the future was only resolved at %.3fs, after the proxy's timeout %.3fs" % (name, got, spec["resolve_at"], tau)})
        return out
    if fails:
        if got != ("exc", "INNER"):
            out.append({"oracle": "transparent", "sig": "failed-future-not-raised|%s" % name, "msg": "%s on a proxy of a failed future gave %r instead of raising the future's exception" % (name, got)})
        return out
    want = _outcome(OPS[spec["op"]][1], _fresh(spec["val"]))
    if got != want:
        out.append({"oracle": "transparent", "sig": "not-transparent|%s|%s" % (name, spec["val"]),
                    "msg": "%s applied to f_proxy(f) gave %r, applied to f.result() (%s %r) gives %r" % (name, got, spec["val"], VALUES[spec["val"]], want)})
    return out


def probes(spec, env):
    sim = env.sim
    log = sim.log
    pend = any(e[3] in ("op", "nb-op") and not e[5] for e in log)
    pr = {"mode:" + spec["mode"]: 1, "state:" + spec["state"]: 1, "op-issued-while-pending": 1 if pend else 0,
          "proxy-timeout-configured": 1 if spec["timeout"] is not None else 0,
          "timeouts-raised": sum(1 for e in log if e[3] == "op-ret" and e[5] == "timeout"),
          "nocancel-cancel-calls": sum(1 for e in log if e[3] == "cancel"), "abnormal-runs": 1 if abnormal(sim) else 0}
    pr["_nontrivial"] = sim.preemptions > 0 and (pend or spec["mode"] == "nocancel")
    return pr


def shrink(spec):
    def cp():
        return json.loads(json.dumps(spec))
    for k, v in (("timeout", None), ("resolve_at", 0), ("ncancel", 1), ("cancel_at", 0), ("resolve_exc", False)):
        if spec[k] != v:
            s = cp()
            s[k] = v
            yield s
