"""C10 - cancel-on-shutdown covers every future the executor ever accepted."""
import json

from harness import runner
from harness.env import SpyExecutor
from harness.oracles import abnormal, deadlock_violations

PROP = "C10"
PLAN = {"quick": {"runs": 14000, "wall_s": 90}, "thorough": {"runs": 400000, "wall_s": 1200}}
RULE = ("Each run: a CancelOnShutdownExecutor over a scripted spy delegate (optionally through a map or far-timeout layer), "
        "1-3 submitter threads racing the one thread that calls shutdown(), earlier futures pending / running / done, "
        "done-callbacks that submit again. Every cancel() reaching a delegate future is recorded with its thread. "
        "Non-trivial = a pre-emption and a submit() call overlapping the shutdown() call.")
ASSUMPTIONS = ["shutdown is called from one thread", "a future whose done-ness changes during the sweep may see 0 or 1 cancel()"]
CHECK_STEPCAP = False


def family(sig):
    return sig.rsplit("|", 1)[0]


def gen(rng, tier):
    nsub = rng.choice([1, 2, 3])
    clients = []
    sid = 0
    subs = {}
    for c in range(nsub):
        ops = []
        for _ in range(rng.choice([1, 2, 3, 4])):
            r = rng.random()
            if r < 0.3:
                ops.append(["sleep", rng.choice([0.05, 0.1, 0.2])])
            elif r < 0.45:
                ops.append(["await", rng.choice(["shutdown-begin", "call-enter"])])
            subs[str(sid)] = {"dur": rng.choice([0, 0.05, 0.2, 1.0]), "cb_resubmit": rng.random() < 0.3}
            ops.append(["submit", sid])
            sid += 1
        clients.append(ops)
    spec = {"subs": subs, "clients": clients, "workers": rng.choice([1, 1, 2]),
            "mid": rng.choice([None, None, "map", "timeout"]),
            "shutdown_at": rng.choice([0, 0, 0.05, 0.1, 0.25]), "shutdown_await": rng.choice([None, None, "call-enter", "submitted"]),
            "wait": rng.random() < 0.7, "settle": 5.0,
            # a further shutdown() by the same thread afterwards (e.g. leaving a `with` block after an
            # explicit shutdown(wait=False)): harmless - in particular no second sweep
            "again": rng.choice([None, None, None, True, False]), "again_at": rng.choice([0, 0.05]),
            # the less common keyword: passed down the chain, never a reason to skip the sweep
            "cancel_futures": rng.choice([None, None, True, False])}
    spec["sim"] = runner.draw_sim_cfg(rng, est=400)
    if spec["shutdown_await"] or any(op[0] == "await" for ops in clients for op in ops):
        runner.prefer_place(spec["sim"], 0.3)
    spec["sim"]["horizon_s"] = 5000
    return spec


def run(spec, env):
    from more_executors import Executors
    sim = env.sim
    spy = SpyExecutor(env, n=spec["workers"])
    inner = spy
    if spec["mid"] == "map":
        inner = Executors.with_map(spy, lambda x: x)
    elif spec["mid"] == "timeout":
        inner = Executors.with_timeout(spy, 5000.0)
    ex = Executors.with_cancel_on_shutdown(inner)
    futs = {}

    def make_fn(s, sub):
        def fn():
            env.rec("call", s)
            env.hit("call-enter")
            if sub["dur"]:
                sim.sleep(sub["dur"])
            return ("v", s, 1)
        fn.tag = s
        return fn

    def resubmit(s):
        def cb(f):
            i = env.rec("resubmit", s)
            try:
                g = ex.submit(make_fn("r%s" % s, {"dur": 0}))
                env.rec("resubmit-ret", s, "ok", i)
                futs["r%s" % s] = g
            except RuntimeError:
                env.rec("resubmit-ret", s, "refused", i)
        return cb

    def client_body(ops):
        def body():
            for op in ops:
                if op[0] == "sleep":
                    env.sleep(op[1])
                elif op[0] == "await":
                    env.await_(op[1], 1.0)
                else:
                    s = op[1]
                    i = env.rec("submit", s)
                    try:
                        f = ex.submit(make_fn(s, spec["subs"][str(s)]))
                    except RuntimeError as e:
                        env.rec("submit-ret", s, "refused", i)
                        continue
                    futs[s] = f
                    env.rec("submit-ret", s, "ok", i)
                    env.hit("submitted")
                    if spec["subs"][str(s)]["cb_resubmit"]:
                        f.add_done_callback(resubmit(s))
        return body

    def shutter():
        if spec["shutdown_await"]:
            env.await_(spec["shutdown_await"], 1.0)
        if spec["shutdown_at"]:
            env.sleep(spec["shutdown_at"])
        i = env.rec("shutdown")
        env.hit("shutdown-begin")
        kw = {} if spec.get("cancel_futures") is None else {"cancel_futures": spec["cancel_futures"]}
        try:
            ex.shutdown(spec["wait"], **kw)
        except Exception as exc:      # shutdown() has no business raising: judged by the oracle, not a harness error
            env.rec("shutdown-raised", i, type(exc).__name__)
            return
        env.rec("shutdown-ret", i)
        if spec.get("again") is not None:
            if spec.get("again_at"):
                env.sleep(spec["again_at"])
            j = env.rec("shutdown2")
            ex.shutdown(spec["again"])
            env.rec("shutdown2-ret", j)

    for ops in spec["clients"]:
        env.client(client_body(ops))
    env.client(shutter, "client-sd")
    env.join_all()
    env.sleep(spec["settle"])
    for s, f in sorted(futs.items(), key=lambda kv: str(kv[0])):
        env.rec("final", s, "cancelled" if f.cancelled() else ("done" if f.done() else "pending"))


def check(spec, env):
    sim = env.sim
    dl = deadlock_violations(sim, include_client_blocked=True)
    if dl:
        return dl
    if abnormal(sim):
        return []
    log = sim.log
    out = []
    for e in log:
        if e[3] == "shutdown-raised":
            out.append({"oracle": "shutdown-raised", "sig": "shutdown-raised|%s" % e[5],
                        "msg": "shutdown() raised %s instead of cancelling the accepted futures and shutting the wrapped executor down" % e[5]})
    if out:
        return out
    sd = [e for e in log if e[3] == "shutdown"]
    sr = [e for e in log if e[3] == "shutdown-ret"]
    if not sd or not sr:
        return out
    S_inv, S_ret, T = sd[0][0], sr[0][0], sd[0][2]
    # delegate shut down inside the call
    if not any(e[3] == "spy-shutdown" and S_inv < e[0] < S_ret for e in log):
        out.append({"oracle": "delegate-shutdown", "sig": "delegate-not-shut-down",
                    "msg": "shutdown() returned without shutting the wrapped executor down"})
    lab = {}      # label -> submission tag
    for e in log:
        if e[3] == "spy-submit":
            lab[e[4]] = e[5]
    spy_of = {v: k for k, v in lab.items()}
    d_begin = {}
    d_fin = {}
    for e in log:
        if e[3] == "spy-done":
            d_begin[e[4]] = e[0]
        elif e[3] == "spy-fin":
            d_fin[e[4]] = e[0]
    cancels = {}
    for e in log:
        if e[3] == "spy-cancel":
            cancels.setdefault(e[4], []).append(e)
    finals = {e[4]: e[5] for e in log if e[3] == "final"}
    rets = {}
    for e in log:
        if e[3] == "submit-ret":
            rets[e[4]] = e
        elif e[3] == "resubmit-ret":
            rets["r%s" % e[4]] = e
    invs = {e[4]: e for e in log if e[3] == "submit"}
    invs.update({"r%s" % e[4]: e for e in log if e[3] == "resubmit"})
    for s, r in rets.items():
        if r[5] != "ok":
            continue
        label = spy_of.get(s)
        if label is None:
            continue
        cs = cancels.get(label, [])
        by_sd = [c for c in cs if c[2] == T and S_inv < c[0] < S_ret]
        if len(by_sd) > 1:
            out.append({"oracle": "cancel-twice", "sig": "cancelled-more-than-once",
                        "msg": "future of submission %r received %d cancel() calls from shutdown()" % (s, len(by_sd))})
        s2 = [e for e in log if e[3] == "shutdown2"]
        r2 = [e for e in log if e[3] == "shutdown2-ret"]
        if s2 and r2:
            again = [c for c in cs if c[2] == T and s2[0][0] < c[0] < r2[0][0]]
            if again:
                out.append({"oracle": "cancel-twice", "sig": "swept-again-by-second-shutdown|first-wait=%s|second-wait=%s" % (spec["wait"], spec["again"]),
                            "msg": "future of submission %r received cancel() from a second shutdown(%s) call (the first shutdown(%s) had already swept: %d cancel() then)"
                                   % (s, spec["again"], spec["wait"], len(by_sd))})
        certainly_done_before = d_fin.get(label, 1 << 60) < S_inv
        certainly_pending_throughout = d_begin.get(label, 1 << 60) > S_ret
        if certainly_pending_throughout and not by_sd:
            # accepted (submit returned a future), not done during the whole shutdown() call
            # and never swept: it escaped
            where = "before" if r[0] < S_inv else ("during" if invs[s][0] < S_ret else "after")
            out.append({"oracle": "escaped", "sig": "future-escaped-sweep|submit-returned-%s-shutdown" % where,
                        "msg": "submission %r: submit() returned a future (event %d; shutdown() ran events %d..%d) that was still pending when "
                               "shutdown() returned and never received cancel() from it (final state %s)"
                               % (s, r[0], S_inv, S_ret, finals.get(s))})
    return out


def probes(spec, env):
    sim = env.sim
    log = sim.log
    sd = [e for e in log if e[3] == "shutdown"]
    sr = [e for e in log if e[3] == "shutdown-ret"]
    overlap = 0
    if sd and sr:
        for e in log:
            if e[3] in ("submit-ret", "resubmit-ret"):
                inv = e[-1]
                if inv < sr[0][0] and e[0] > sd[0][0]:
                    overlap += 1
    pr = {"submit-overlapping-shutdown": overlap,
          "submit-refused": sum(1 for e in log if e[3] in ("submit-ret", "resubmit-ret") and e[5] == "refused"),
          "cancels-by-sweep": sum(1 for e in log if e[3] == "spy-cancel"),
          "callback-resubmissions": sum(1 for e in log if e[3] == "resubmit"),
          "abnormal-runs": 1 if abnormal(sim) else 0}
    pr["_nontrivial"] = sim.preemptions > 0 and overlap > 0
    return pr


def shrink(spec):
    def cp():
        return json.loads(json.dumps(spec))
    for c in range(len(spec["clients"])):
        if len(spec["clients"]) > 1:
            s = cp()
            del s["clients"][c]
            yield s
    for c in range(len(spec["clients"])):
        for o in range(len(spec["clients"][c])):
            s = cp()
            del s["clients"][c][o]
            if any(op[0] == "submit" for op in s["clients"][c]):
                yield s
    for k, v in (("mid", None), ("shutdown_await", None), ("shutdown_at", 0)):
        if spec[k] != v:
            s = cp()
            s[k] = v
            yield s
