"""C15 - f_zip / f_sequence / f_traverse keep positions and propagate the first failure."""
import itertools
import json
from concurrent.futures import CancelledError, Future

from harness import runner
from harness.env import SpyFuture
from harness.oracles import abnormal
from harness.stackrun import fut_state, state_desc

PROP = "C15"
PLAN = {"quick": {"runs": 16000, "wall_s": 90}, "thorough": {"runs": 400000, "wall_s": 1200}}
RULE = ("Each run: f_zip, f_sequence or f_traverse over 0-6 inputs (plain / library futures, duplicates, generators as input; one "
        "2000-input case per few thousand runs in the thorough tier) with outcomes value / exception / cancelled / never, completed "
        "by 1-3 threads in scheduler-chosen order (some already done), an optional output cancel; f_traverse with a recording fn "
        "that may raise at element k. Oracle: positions and container type on success; on failure the exception / cancellation of "
        "an input that is first in some order consistent with real time; output cancel reaches every pending input; fn once per "
        "element in order. Non-trivial = a pre-emption and at least two inputs completed by different threads.")
ASSUMPTIONS = ["completions are intervals; inputs already finished at construction are mutually unordered"]


def family(sig):
    return sig.rsplit("|", 1)[0]


def gen(rng, tier):
    comb = rng.choice(["zip", "zip", "sequence", "traverse"])
    n = rng.choice([0, 1, 2, 2, 3, 3, 4, 6])
    if rng.random() < 0.03:
        n = rng.choice([19, 20, 21, 25])     # f_zip switches from named tuples to plain tuples at 20
    big = tier == "thorough" and rng.random() < 0.0005
    if big:
        n = 2000
    ins = []
    mostly_ok = n >= 19 and rng.random() < 0.7     # many inputs: let them all succeed most of the time
    for i in range(n):
        ins.append({"end": rng.choice(["val", "val", "val", "val", "exc", "cancel", "never"]) if not (big or mostly_ok) else "val",
                    "at": rng.choice([None, 0, 0, 0.05, 0.1]), "by": rng.randrange(3),
                    "lib": (not big) and rng.random() < 0.2, "cerr": (not big) and rng.random() < 0.15, "falsy_exc": (not big) and rng.random() < 0.12})
    spec = {"comb": comb, "ins": ins, "dup": (rng.randrange(n), rng.randrange(n)) if n >= 2 and rng.random() < 0.2 and not big else None,
            "gen_input": rng.random() < 0.5, "fn_raise_at": rng.choice([None, None, None, 0, 1, 2]) if comb == "traverse" else None,
            "cancel_at": rng.choice([None, None, None, 0, 0.05]), "settle": 5.0,
            # the class of the exception fn raises: StopIteration / CancelledError / ... are exceptions like any other
            "fn_raise_cls": rng.choice(["ScriptedError", "ScriptedError", "ErrStop", "ErrCancelled", "ErrKey"])}
    spec["sim"] = runner.draw_sim_cfg(rng, est=300, line_ok=not big)
    spec["sim"]["horizon_s"] = 5000
    if big:
        spec["sim"]["step_cap"] = 3000000
    return spec


def run(spec, env):
    from more_executors import futures as F
    from more_executors._impl.map import MapFuture
    sim = env.sim
    ins = spec["ins"]
    n = len(ins)
    raw = [SpyFuture(env, "in%d" % i) for i in range(n)]
    results = {}
    for i, inp in enumerate(ins):
        if inp["end"] == "val":
            results[i] = ["r", i]
        elif inp["end"] == "exc":
            # (an input that FAILED WITH a CancelledError instance is failed, not cancelled)
            results[i] = CancelledError() if inp.get("cerr") else env.exc(("in", i), "FalsyErr" if inp.get("falsy_exc") else "ScriptedError")
    env.objs["results"] = results

    def complete(i):
        inp = ins[i]
        r = raw[i]
        b = env.rec("complete", i, inp["end"])
        try:
            if inp["end"] == "cancel":
                if Future.cancel(r):
                    r.set_running_or_notify_cancel()
            elif not r.set_running_or_notify_cancel():
                env.rec("complete-skipped", i)
            elif inp["end"] == "exc":
                r.set_exception(results[i])
            else:
                r.set_result(results[i])
        except Exception as e:
            env.rec("complete-raised", i, type(e).__name__)
        env.rec("complete-ret", i, b)

    for i, inp in enumerate(ins):
        if inp["at"] is None and inp["end"] != "never":
            complete(i)
    wrapped = [MapFuture(raw[i]) if ins[i]["lib"] else raw[i] for i in range(n)]
    args = list(wrapped)
    if spec["dup"]:
        (a, b) = spec["dup"]
        args[b] = args[a]
    env.objs["args_idx"] = [wrapped.index(f) for f in args]
    fn_calls = []
    try:
        if spec["comb"] == "zip":
            out = F.f_zip(*args)
        elif spec["comb"] == "sequence":
            out = F.f_sequence((f for f in args) if spec["gen_input"] else list(args))
        else:
            def fn(k):
                fn_calls.append(k)
                env.rec("fn", k)
                if spec["fn_raise_at"] == k:
                    raise env.exc(("fn", k), spec.get("fn_raise_cls", "ScriptedError"))
                return args[k]
            xs = (k for k in range(len(args))) if spec["gen_input"] else list(range(len(args)))
            out = F.f_traverse(fn, xs)
    except Exception as e:
        env.rec("build-raised", type(e).__name__, str(e)[:60])
        return
    env.rec("built")
    env.objs["fn_calls"] = fn_calls

    def completer(k):
        def body():
            mine = sorted((inp["at"], i) for i, inp in enumerate(ins) if inp["by"] == k and inp["at"] is not None and inp["end"] != "never")
            t = 0.0
            for (at, i) in mine:
                if at > t:
                    env.sleep(at - t)
                    t = at
                sim.yield_point("user")
                complete(i)
        return body

    def canceller():
        if spec["cancel_at"]:
            env.sleep(spec["cancel_at"])
        i = env.rec("out-cancel")
        try:
            r = out.cancel()
        except Exception as e:
            r = "raised " + type(e).__name__
        env.rec("out-cancel-ret", r, i)

    for k in range(3):
        env.client(completer(k), "client-c%d" % k)
    if spec["cancel_at"] is not None:
        env.client(canceller, "client-x")
    env.join_all()
    env.sleep(spec["settle"])
    st = fut_state(out)
    env.objs["final"] = st
    env.rec("final", [st[0]])
    env.objs["raw_cancels"] = [f.cancel_calls for f in raw]


def check(spec, env):
    sim = env.sim
    if abnormal(sim):
        return []
    log = sim.log
    out = []
    comb = spec["comb"]
    ins = spec["ins"]
    for e in log:
        if e[3] == "build-raised":
            return [{"oracle": "construct", "sig": "f_%s-raised|%s" % (comb, e[4]), "msg": "f_%s(...) raised %s: %s; %d inputs" % (comb, e[4], e[5], len(ins))}]
        if e[3] == "complete-raised":
            out.append({"oracle": "completion-raised", "sig": "input-completion-raised|%s|%s" % (comb, e[5]),
                        "msg": "completing input %d raised %s out of the combinator's done-callback" % (e[4], e[5])})
    st = env.objs.get("final")
    if st is None:
        return out
    results = env.objs["results"]
    args_idx = env.objs["args_idx"]
    n = len(args_idx)
    out_cancel_true = any(e[3] == "out-cancel-ret" and e[4] is True for e in log)
    # traverse: fn once per element, in iteration order
    if comb == "traverse":
        calls = env.objs.get("fn_calls", [])
        upto = n if spec["fn_raise_at"] is None or spec["fn_raise_at"] >= n else spec["fn_raise_at"] + 1
        if calls != list(range(upto)):
            out.append({"oracle": "traverse-fn", "sig": "traverse-fn-calls", "msg": "f_traverse called fn with %r, expected %r" % (calls, list(range(upto)))})
        if spec["fn_raise_at"] is not None and spec["fn_raise_at"] < n:
            want = env.excs.get(repr(("fn", spec["fn_raise_at"])))
            if not (st[0] == "exc" and st[1] is want):
                out.append({"oracle": "traverse-fn", "sig": "traverse-fn-exception-lost", "msg": "fn raised at element %d but the output ended %r" % (spec["fn_raise_at"], st[0])})
            return out
    distinct = sorted(set(args_idx))
    beg = {e[4]: e[0] for e in log if e[3] == "complete"}
    end = {e[4]: e[0] for e in log if e[3] == "complete-ret"}
    skipped = set(e[4] for e in log if e[3] == "complete-skipped")
    built = [e[0] for e in log if e[3] == "built"]
    if built:
        for i in list(beg):
            if i in end and end[i] < built[0]:
                beg[i] = end[i] = built[0]
    fin = [i for i in distinct if i in beg and i in end and i not in skipped]
    bad = [i for i in fin if ins[i]["end"] in ("exc", "cancel")]
    allowed = set()
    if not bad:
        if len(fin) == len(distinct):
            allowed.add(("val",))
        else:
            allowed.add(("pending",))
    else:
        # the first failure / cancellation in some order consistent with real-time precedence:
        # i can be first iff no other failing input finished entirely before i began
        for i in bad:
            if not any(j != i and end[j] < beg[i] for j in bad):
                allowed.add(("exc", i) if ins[i]["end"] == "exc" else ("cancelled",))
    if st[0] == "val":
        got = ("val",)
    elif st[0] == "exc":
        g = [i for i in results if results[i] is st[1]]
        got = ("exc", g[0] if g else "?")
    else:
        got = (st[0],)
    if got == ("cancelled",) and out_cancel_true:
        pass
    elif skipped and got not in allowed:
        pass
    elif got not in allowed:
        out.append({"oracle": "outcome", "sig": "wrong-outcome|%s|%s" % (comb, got[0]),
                    "msg": "f_%s ended %r but completion orders consistent with real time allow only %r; inputs %r dup %r"
                           % (comb, got, sorted(allowed, key=str), ins if n < 10 else "%d inputs" % n, spec["dup"])})
    elif got == ("val",):
        v = st[1]
        want_type = tuple if comb == "zip" else list
        if not isinstance(v, want_type) or (comb != "zip" and type(v) is not list):
            out.append({"oracle": "container", "sig": "wrong-container|%s|%s" % (comb, type(v).__name__),
                        "msg": "f_%s resolved with a %s, expected a %s" % (comb, type(v).__name__, want_type.__name__)})
        elif len(v) != n or any(v[k] is not results[args_idx[k]] for k in range(n)):
            wrong = [k for k in range(min(len(v), n)) if v[k] is not results[args_idx[k]]][:5]
            out.append({"oracle": "positions", "sig": "wrong-positions|%s" % comb,
                        "msg": "f_%s: result has %d elements for %d inputs; positions holding another input's result: %r (dup %r)" % (comb, len(v), n, wrong, spec["dup"])})
    # output cancel reaches every pending input
    rc = env.objs["raw_cancels"]
    if out_cancel_true:
        for i in distinct:
            if ins[i]["end"] == "never" and rc[i] == 0:
                out.append({"oracle": "cancel-fanout", "sig": "pending-input-not-cancelled|%s" % comb,
                            "msg": "f_%s output cancel() returned True but pending input %d never received cancel()" % (comb, i)})
    return out


def probes(spec, env):
    sim = env.sim
    log = sim.log
    threads = set(e[2] for e in log if e[3] == "complete" and e[2] != 0)
    pr = {"comb:" + spec["comb"]: 1, "inputs": len(spec["ins"]), "duplicates": 1 if spec["dup"] else 0,
          "large-case(2000)": 1 if len(spec["ins"]) >= 2000 else 0,
          "fault:input-failed-or-cancelled": sum(1 for e in log if e[3] == "complete" and e[5] in ("exc", "cancel")),
          "fault:output-cancelled": sum(1 for e in log if e[3] == "out-cancel"),
          "traverse-fn-raised": 1 if spec["fn_raise_at"] is not None else 0, "abnormal-runs": 1 if abnormal(sim) else 0}
    pr["_nontrivial"] = sim.preemptions > 0 and len(threads) >= 2
    return pr


def shrink(spec):
    def cp():
        return json.loads(json.dumps(spec))
    n = len(spec["ins"])
    if n > 50:
        s = cp()
        s["ins"] = s["ins"][:n // 2]
        yield s
        return
    for i in range(n):
        if n > 1 and (not spec["dup"] or i not in spec["dup"]):
            s = cp()
            del s["ins"][i]
            if s["dup"]:
                s["dup"] = [d - (1 if d > i else 0) for d in s["dup"]]
            if s["fn_raise_at"] is not None and s["fn_raise_at"] >= len(s["ins"]):
                s["fn_raise_at"] = None
            yield s
    for k, v in (("cancel_at", None), ("dup", None), ("fn_raise_at", None), ("gen_input", False)):
        if spec[k] != v:
            s = cp()
            s[k] = v
            yield s
