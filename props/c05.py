"""C05 - retry: exact attempt accounting, sequential attempts, exact back-off."""
import json

from harness import runner, model
from harness.oracles import abnormal
from harness.stackrun import StackRun, fut_state, state_desc

PROP = "C05"
PLAN = {"quick": {"runs": 14000, "wall_s": 90}, "thorough": {"runs": 400000, "wall_s": 1200}}
RULE = ("Each run: a RetryExecutor over a scripted delegate / thread pool / sync executor, 1-4 concurrently retrying "
        "submissions with success/exception-class scripts of up to 6 attempts, an ExceptionRetryPolicy with drawn "
        "max_attempts / sleep / exponent / max_sleep / exception_base or a custom policy (retrying on results, raising "
        "in should_retry / sleep_time at call k), an observer thread polling done() and registering callbacks at drawn "
        "virtual times. Oracles over the history in virtual time. Non-trivial = at least one retry and one pre-emption.")
ASSUMPTIONS = ["'absent contention' = the delegate has a free worker for every submission (one submission, or workers >= submissions) and no injected stall",
               "slack for timing = 5 ms + clock reads x tick"]


def family(sig):
    return sig.rsplit("|", 1)[0]


def gen(rng, tier):
    nsubs = rng.choice([1, 1, 2, 3, 4])
    base = {"kind": rng.choice(["spy", "spy", "pool", "sync"]), "n": rng.choice([1, 2, 4])}
    if rng.random() < 0.65:
        pol = {"kind": "exception", "max_attempts": rng.choice([1, 2, 3, 4, 5]), "sleep": rng.choice([0, 0.05, 1, 2.5]),
               "exponent": rng.choice([0.5, 1, 2, 3]), "max_sleep": rng.choice([1, 4, 120])}
        if rng.random() < 0.4:
            pol["exception_base"] = rng.choice([["ErrA"], ["ErrA", "ErrB"], ["ErrB"], ["ErrC"]])
    else:
        pol = {"kind": "custom", "max": rng.choice([1, 2, 3, 4]), "on": rng.choice(["exc", "exc", "always"]),
               "sleep": rng.choice([0, 0.05, 1, 1000])}
        if pol["sleep"] == 1000:
            pol["max"] = min(pol["max"], 2)
        r = rng.random()
        if r < 0.25:
            pol["raise_should"] = rng.choice([1, 2, 3])
        elif r < 0.5:
            pol["raise_sleep"] = rng.choice([1, 2])
        elif r < 0.65:
            pol["inherit_sleep"] = True     # sleep_time not overridden: the base class's 0
            pol["sleep"] = 0
        elif r < 0.7:
            pol = {"kind": "base"}
    layers = [{"t": "retry", "policy": pol}]
    subs = {}
    falsy_run = rng.random() < 0.15      # some runs raise an exception object whose truth value is False
    for s in range(nsubs):
        nfail = rng.choice([0, 1, 1, 2, 3, 5])
        script = [rng.choice(["ErrA", "ErrA", "ErrB", "ErrC"] + (["FalsyErr"] if falsy_run else [])) for _ in range(nfail)] + ["ok"]
        if rng.random() < 0.15:
            script[-1] = "ErrA"
        subs[str(s)] = {"script": script, "dur": rng.choice([0, 0.05, 0.1, 0.5])}
    submit_ops = []
    for s in range(nsubs):
        if s and rng.random() < 0.4:
            submit_ops.append(["sleep", rng.choice([0.05, 0.1, 0.5])])
        submit_ops.append(["submit", s])
    obs_ops = []
    for _ in range(rng.choice([2, 4, 6, 8])):
        obs_ops.append(["sleep", rng.choice([0, 0.05, 0.1, 0.5, 1.0, 2.0])])
        obs_ops.append([rng.choice(["done", "done", "cb"]), rng.randrange(nsubs)])
    spec = {"base": base, "layers": layers, "subs": subs, "clients": [submit_ops, obs_ops], "aux": False}
    bound = 0.0
    for s in subs:
        (_, _, work, slp) = model.eval_sub(spec, int(s))
        bound += work + slp
    spec["sim"] = runner.draw_sim_cfg(rng, est=500, stall_ok=True)
    spec["settle"] = round(bound + (10.0 if not spec["sim"].get("stall_p") else 300.0), 3)
    spec["sim"]["horizon_s"] = spec["settle"] * 2 + 10000
    return spec


def run(spec, env):
    sr = StackRun(spec, env)
    env.objs["sr"] = sr
    sr.build()
    sr.run_clients()
    env.sleep(spec["settle"])
    sr.finals()


def check(spec, env):
    sim = env.sim
    if abnormal(sim):
        return []
    log = sim.log
    out = []
    pol = spec["layers"][0]["policy"]
    pk = pol["kind"]
    finals = env.objs.get("finals", {})
    stall_free = not spec["sim"].get("stall_p")
    nsubs = len(spec["subs"])
    base = spec["base"]
    contention_free = nsubs == 1 or (base["kind"] in ("spy", "pool") and base.get("n", 1) >= nsubs)
    slack = int((0.005 + sim.clock_reads * sim.tick_ns / 1e9) * 1e9)
    calls, ends = {}, {}
    for e in log:
        if e[3] == "call":
            calls.setdefault(e[4], []).append(e)
        elif e[3] == "call-end":
            ends.setdefault(e[4], []).append(e)
    for s in sorted(finals):
        m = model.eval_full(spec, s)
        cs, es = calls.get(s, []), ends.get(s, [])
        if finals[s][0] == "pending":
            # the run ended (injected stalls can eat the settle time) before this submission
            # finished: nothing can be concluded about counts or outcome (liveness is C03's) -
            # except that a policy which raised must end retrying with the callable's own outcome
            ra = pol.get("raise_should") or pol.get("raise_sleep")
            which = "should_retry" if pol.get("raise_should") else "sleep_time"
            if stall_free and ra and any(e[3] == "ufn" and e[4] == which and e[6] == ra and e[7] == s for e in log):
                out.append({"oracle": "policy-raised", "sig": "pending-after-policy-raised|%s" % which,
                            "msg": "submission %d: %s raised at attempt %d, the future is still pending %.1f virtual seconds later "
                                   "(a raising policy ends retrying with the callable's own outcome)" % (s, which, ra, spec.get("settle", 0))})
            continue
        # (a) attempts strictly one after another
        for k in range(1, len(cs)):
            if k - 1 >= len(es) or cs[k][0] < es[k - 1][0]:
                out.append({"oracle": "overlapping-attempts", "sig": "attempts-overlap|%s" % pk,
                            "msg": "submission %d: attempt %d started (event %d) before attempt %d had finished" % (s, k + 1, cs[k][0], k)})
                break
        # (d) attempt count
        if m["calls"] is not None and len(cs) != m["calls"]:
            out.append({"oracle": "attempt-count", "sig": "attempt-count|%s|%s" % (pk, "more" if len(cs) > m["calls"] else "fewer"),
                        "msg": "submission %d: callable ran %d times, the policy %r with script %r requires exactly %d"
                               % (s, len(cs), pol, spec["subs"][str(s)]["script"], m["calls"])})
            continue
        # (b) policy consulted once per finished attempt, attempt = 1, 2, 3, ...
        sr_calls = [e[6] for e in log if e[3] == "ufn" and e[4] == "should_retry" and e[7] == s]
        if pk != "base" and sr_calls != list(range(1, len(cs) + 1)):
            out.append({"oracle": "policy-consultation", "sig": "should-retry-sequence|%s" % pk,
                        "msg": "submission %d: should_retry was called with attempts %r, expected %r"
                               % (s, sr_calls, list(range(1, len(cs) + 1)))})
        st_calls = [e[6] for e in log if e[3] == "ufn" and e[4] == "sleep_time" and e[7] == s]
        exp_st = list(range(1, len(m["delays"]) + 1))
        if pol.get("raise_sleep") and len(cs) >= pol["raise_sleep"]:
            exp_st = list(range(1, pol["raise_sleep"] + 1))[len(exp_st):] and exp_st + [pol["raise_sleep"]] or exp_st
        if st_calls != exp_st and not pol.get("raise_sleep") and not pol.get("inherit_sleep") and pk != "base":
            out.append({"oracle": "policy-consultation", "sig": "sleep-time-sequence|%s" % pk,
                        "msg": "submission %d: sleep_time was called with attempts %r, expected %r" % (s, st_calls, exp_st)})
        # (c) back-off: never earlier than the delay; exactly then when nothing competes
        for k in range(1, len(cs)):
            if k - 1 >= len(m["delays"]) or k - 1 >= len(es):
                break
            d = int(round(m["delays"][k - 1] * 1e9))
            gap = cs[k][1] - es[k - 1][1]
            if gap < d:
                out.append({"oracle": "backoff-early", "sig": "backoff-early|%s" % pk,
                            "msg": "submission %d: attempt %d started %.6fs after attempt %d ended; the policy's delay is %.6fs"
                                   % (s, k + 1, gap / 1e9, k, d / 1e9)})
                break
            if stall_free and contention_free and gap > d + slack:
                out.append({"oracle": "backoff-late", "sig": "backoff-late|%s" % pk,
                            "msg": "submission %d: attempt %d started %.6fs after attempt %d ended; the delay is %.6fs and a worker was free (slack %.6fs)"
                                   % (s, k + 1, gap / 1e9, k, d / 1e9, slack / 1e9)})
                break
        # (e) not done / no callback before the final attempt ended
        if es:
            last_end = es[-1][0] if len(es) == len(cs) else None
            if last_end is not None:
                for e in log:
                    if e[0] >= last_end:
                        break
                    if e[3] == "obs" and e[4] == s and e[5]:
                        out.append({"oracle": "done-early", "sig": "done-before-final-attempt|%s" % pk,
                                    "msg": "submission %d: done() was True (event %d) before its final attempt ended (event %d)" % (s, e[0], last_end)})
                        break
                    if e[3] == "cb-run" and e[4] == s:
                        out.append({"oracle": "callback-early", "sig": "callback-before-final-attempt|%s" % pk,
                                    "msg": "submission %d: a done-callback ran (event %d) before its final attempt ended (event %d)" % (s, e[0], last_end)})
                        break
        # (f) terminal outcome = final attempt's outcome (identity)
        diff = model.matches(env, m["outcome"], finals[s])
        if diff:
            out.append({"oracle": "outcome", "sig": "wrong-outcome|%s|%s" % (pk, finals[s][0]),
                        "msg": "submission %d: %s; policy %r; script %r" % (s, diff, pol, spec["subs"][str(s)]["script"])})
    return out


def probes(spec, env):
    sim = env.sim
    log = sim.log
    retries = sum(1 for e in log if e[3] == "call" and e[5] > 1)
    pr = {"retries": retries, "policy:" + spec["layers"][0]["policy"]["kind"]: 1, "base:" + spec["base"]["kind"]: 1,
          "fault:policy-raised": sum(1 for e in log if e[3] == "ufn" and e[4] in ("should_retry", "sleep_time")) and
          (1 if (spec["layers"][0]["policy"].get("raise_should") or spec["layers"][0]["policy"].get("raise_sleep")) else 0),
          "observer:done()-polls": sum(1 for e in log if e[3] == "obs"),
          "observer:callbacks-run": sum(1 for e in log if e[3] == "cb-run"),
          "abnormal-runs": 1 if abnormal(sim) else 0}
    pr["_nontrivial"] = sim.preemptions > 0 and retries > 0
    return pr


def shrink(spec):
    def cp():
        return json.loads(json.dumps(spec))
    n = len(spec["subs"])
    if n > 1:
        for drop in range(n):
            s = cp()
            keep = [i for i in range(n) if i != drop]
            remap = {old: new for new, old in enumerate(keep)}
            s["subs"] = {str(remap[i]): spec["subs"][str(i)] for i in keep}
            cl = []
            for ops in s["clients"]:
                o2 = []
                for op in ops:
                    if op[0] == "sleep":
                        o2.append(op)
                    elif op[1] in remap:
                        o2.append([op[0], remap[op[1]]] + op[2:])
                cl.append(o2)
            s["clients"] = cl
            yield s
    for o in range(len(spec["clients"][1])):
        s = cp()
        del s["clients"][1][o]
        yield s
    for k, sub in spec["subs"].items():
        if len(sub["script"]) > 1:
            s = cp()
            s["subs"][k]["script"] = sub["script"][1:]
            yield s
        if sub.get("dur"):
            s = cp()
            s["subs"][k]["dur"] = 0
            yield s
