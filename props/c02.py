"""C02 - every returned future obeys the concurrent.futures.Future protocol."""
import json
from concurrent.futures import CancelledError, Future, TimeoutError as FTimeout, as_completed, wait

from harness import runner
from harness.env import SpyExecutor, SpyFuture, desc
from harness.oracles import abnormal

PROP = "C02"
PLAN = {"quick": {"runs": 28000, "wall_s": 90}, "thorough": {"runs": 400000, "wall_s": 1200}}
RULE = ("Each run: one subject future from a drawn producer (every executor class and f_* combinator), whose "
        "underlying work ends by value, exception, cancellation through it or behind its back, while 2-3 client "
        "threads issue a drawn history of cancel / add_done_callback / result / exception / wait / as_completed / "
        "done / cancelled / running. Oracles over the history: single immutable outcome, cancel() contract, "
        "callbacks exactly once and only when done, blocked callers released by every kind of completion (also when the "
        "delegate is cancelled behind the subject's back after the subject refused a cancel()). "
        "Non-trivial = at least one pre-emption and at least one client operation overlapping the completion.")
ASSUMPTIONS = ["AsyncioExecutor futures (asyncio.Future) are not subjects",
               "an exception raised by the user's own callback through add_done_callback on an already-done future is expected behaviour",
               "whether the subject ever completes is C03's business; C02 judges what was observed"]

EXEC_SUBJECTS = ["retry", "map", "flat_map", "poll", "throttle", "timeout", "cos", "pool", "sync"]
COMB_SUBJECTS = ["f_or", "f_and", "f_zip", "f_sequence", "f_traverse", "f_map", "f_flat_map", "f_apply",
                 "f_nocancel", "f_proxy", "f_timeout", "f_return", "f_return_error", "f_return_cancelled"]
WAIT_T = 1000.0


def family(sig):
    return sig.rsplit("|", 1)[0]


def gen(rng, tier):
    kind = rng.choice(EXEC_SUBJECTS + COMB_SUBJECTS) if rng.random() < 0.7 else rng.choice(["retry", "poll", "poll", "throttle", "f_zip", "f_or", "f_and"])
    spec = {"kind": kind, "end": rng.choice(["val", "val", "exc", "ext-cancel"]),
            "dur": rng.choice([0, 0.05, 0.1, 0.3]), "blocker": rng.choice([0, 0, 0.1, 0.2]),
            "fail_first": rng.choice([0, 0, 1, 2]), "ext_at": rng.choice([0, 0.05, 0.15]),
            "poll_after": rng.choice([1, 2]), "cancel_fn": rng.choice([None, "true", "false", "raise"]),
            "timeout": rng.choice([0.1, 0.2, 5000.0, 5000.0]),
            "ninputs": rng.choice([1, 2, 3]), "in_at": [rng.choice([0, 0.05, 0.1, 0.2]) for _ in range(3)],
            "lib_inputs": rng.random() < 0.3, "settle": 30.0,
            # re-entrancy: a done-callback registered on the first input *before* the subject is built
            # cancels the subject (so a cancel() of the subject re-enters itself on the same thread)
            "input_cb_cancels_subject": rng.random() < 0.12}
    nclients = rng.choice([2, 2, 3])
    clients = []
    triggers = ["call-enter", "call-exit", "poll-enter", "poll-final", "cb-enter", "pre-complete", "fn-enter"]
    for c in range(nclients):
        ops = []
        for _ in range(rng.choice([1, 2, 3, 4])):
            r = rng.random()
            if r < 0.35:
                ops.append(["await", rng.choice(triggers)])      # place the next op inside a window
            elif r < 0.6:
                ops.append(["sleep", rng.choice([0.05, 0.1, 0.15, 0.2, 0.3])])
            k = rng.choice(["cancel", "cancel", "cancel", "cb", "cb", "cb", "cbraise", "result", "exception", "wait",
                            "as_completed", "done", "done", "running"])
            ops.append([k])
        clients.append(ops)
    if rng.random() < 0.5:
        clients[0].insert(0, [rng.choice(["cb", "cb", "cbraise"])])   # a callback registered up front
    mapped = kind in ("f_map", "f_flat_map", "map", "flat_map")
    if rng.random() < (0.6 if mapped else 0.35):
        # window family: callbacks registered first, then a cancel() placed inside a window of user
        # code (callable / poll function / another callback running), racing whatever completes the
        # future there; a second client observes or waits
        own = ["fn-enter", "fn-enter", "fn-enter", "pre-complete"] if mapped else ["pre-complete"] if kind in COMB_SUBJECTS else (["poll-final", "poll-enter", "call-exit"] if kind == "poll" else ["call-exit", "call-exit", "call-enter"])
        if spec["end"] == "ext-cancel":
            # the delegate / first input is cancelled behind the subject's back: the window is just before that
            own = ["pre-complete"] * 3 + own
        t1 = rng.choice(own + own + triggers)
        clients = [[["cb"]] * rng.choice([0, 1, 2]) + [["await", t1], [rng.choice(["cancel", "cancel", "cb", "cb", "cb", "cbraise"])]],
                   [["await", rng.choice(own + triggers)], [rng.choice(["cb", "cb", "cancel", "result", "done", "wait"])]]]
    spec["clients"] = clients
    spec["sim"] = runner.draw_sim_cfg(rng, est=500, stall_ok=True)
    if any(op[0] == "await" for ops in clients for op in ops):
        runner.prefer_place(spec["sim"], 0.5)
    spec["sim"]["horizon_s"] = 30000
    return spec


def observe(f):
    """('pending',) | ('cancelled',) | ('val', desc) | ('exc', desc): read under no lock, so a
    concurrent completion may land between the calls - only terminal observations are compared."""
    if not f.done():
        return ("pending",)
    if f.cancelled():
        return ("cancelled",)
    try:
        e = f.exception(0)
    except CancelledError:
        return ("cancelled",)
    if e is not None:
        return ("exc", repr(desc(e)))
    v = f.result(0)
    return ("val", "<future>" if isinstance(v, Future) else repr(desc(v)))


def make_subject(spec, env):
    """Returns (subject future, hook to run in a producer thread or None)."""
    from more_executors import Executors, futures as F
    from more_executors._impl.map import MapFuture
    sim = env.sim
    kind = spec["kind"]
    calls = [0]

    def work():
        calls[0] += 1
        env.rec("call", calls[0])
        env.hit("call-enter")
        if spec["dur"]:
            sim.sleep(spec["dur"])
        env.hit("call-exit")
        sim.yield_point("user-call")
        if calls[0] <= spec["fail_first"] or spec["end"] == "exc":
            raise env.exc(("w", calls[0]), "ErrA")
        return ("w", calls[0])

    def mfn(tag, wrap=None):
        """a mapping function that is a pre-emptible window of user code (trigger fn-enter)"""
        def fn(x):
            env.rec("fn", tag)
            env.hit("fn-enter")
            sim.yield_point("user-fn")
            v = (tag, x)
            return wrap(v) if wrap is not None else v
        return fn

    if kind in EXEC_SUBJECTS:
        spy = SpyExecutor(env, n=1)
        env.objs["spy"] = spy
        if spec["blocker"] and kind not in ("sync",):
            spy.submit(lambda: sim.sleep(spec["blocker"]))
        if kind == "sync":
            return Executors.sync().submit(work), None
        if kind == "pool":
            pool = Executors.thread_pool(max_workers=1)
            if spec["blocker"]:
                pool.submit(lambda: sim.sleep(spec["blocker"]))
            return pool.submit(work), None
        if kind == "retry":
            ex = Executors.with_retry(spy, max_attempts=3, sleep=0.05)
        elif kind == "map":
            ex = Executors.with_map(spy, fn=mfn("m"))
        elif kind == "flat_map":
            ex = Executors.with_flat_map(spy, fn=mfn("fm", F.f_return))
        elif kind == "poll":
            seen = {}

            def poll_fn(ds):
                env.rec("poll", len(ds))
                for d in ds:
                    k = repr(d.result)
                    seen[k] = seen.get(k, 0) + 1
                    env.hit("poll-enter")
                    if seen[k] >= spec["poll_after"]:
                        env.hit("poll-final")
                    sim.yield_point("user-poll")   # the poll function is pre-emptible user code
                    if seen[k] >= spec["poll_after"]:
                        d.yield_result(("p", d.result))

            def cancel_fn(r):
                env.rec("cancelfn", spec["cancel_fn"])
                if spec["cancel_fn"] == "raise":
                    raise env.exc(("cancelfn",))
                return spec["cancel_fn"] == "true"
            ex = Executors.with_poll(spy, poll_fn, cancel_fn=cancel_fn if spec["cancel_fn"] else None,
                                     default_interval=0.1)
        elif kind == "throttle":
            ex = Executors.with_throttle(spy, 1)
        elif kind == "timeout":
            ex = Executors.with_timeout(spy, spec["timeout"])
        elif kind == "cos":
            ex = Executors.with_cancel_on_shutdown(spy)
        f = ex.submit(work)
        env.objs["ex"] = ex
        hook = None
        if spec["end"] == "ext-cancel":
            def hook():
                env.sleep(spec["ext_at"])
                env.hit("pre-complete")
                sim.yield_point("user")
                env.rec("ext-cancel", spy.reap())
        return f, hook

    # combinators
    n = spec["ninputs"]
    raw = [SpyFuture(env, "in%d" % i) for i in range(n)]
    box = {}
    if spec.get("input_cb_cancels_subject"):
        def recancel(_f):
            f_ = box.get("f")
            if f_ is not None:
                env.rec("reentrant-cancel")
                try:
                    f_.cancel()
                except Exception as e:
                    env.rec("op-ret", "cancel", "raised", type(e).__name__, -1)
        raw[0].add_done_callback(recancel)
    ins = [MapFuture(r) if spec["lib_inputs"] else r for r in raw]
    if kind == "f_or":
        f = F.f_or(*ins)
    elif kind == "f_and":
        f = F.f_and(*ins)
    elif kind == "f_zip":
        f = F.f_zip(*ins)
    elif kind == "f_sequence":
        f = F.f_sequence(ins)
    elif kind == "f_traverse":
        f = F.f_traverse(lambda x: x, ins)
    elif kind == "f_map":
        f = F.f_map(ins[0], mfn("m"))
    elif kind == "f_flat_map":
        f = F.f_flat_map(ins[0], mfn("fm", (lambda v: ins[1]) if n > 1 else F.f_return))
    elif kind == "f_apply":
        f = F.f_apply(F.f_return(lambda *a: ("app",) + a), *ins)
    elif kind == "f_nocancel":
        f = F.f_nocancel(ins[0])
    elif kind == "f_proxy":
        f = F.f_proxy(ins[0])
    elif kind == "f_timeout":
        f = F.f_timeout(ins[0], spec["timeout"])
    elif kind == "f_return":
        return F.f_return(("r",)), None
    elif kind == "f_return_error":
        return F.f_return_error(env.exc(("r",))), None
    elif kind == "f_return_cancelled":
        return F.f_return_cancelled(), None

    def hook():
        t = 0.0
        order = sorted((spec["in_at"][i], i) for i in range(n))
        for (at, i) in order:
            if at > t:
                env.sleep(at - t)
                t = at
            r = raw[i]
            env.hit("pre-complete")
            sim.yield_point("user")
            try:
                if spec["end"] == "ext-cancel" and i == 0:
                    env.rec("ext-cancel", i)
                    if Future.cancel(r):
                        r.set_running_or_notify_cancel()
                elif not r.set_running_or_notify_cancel():
                    pass
                elif spec["end"] == "exc" and i == 0:
                    r.set_exception(env.exc(("in", i)))
                else:
                    r.set_result(("in", i))
            except Exception as e:
                env.rec("complete-raised", i, type(e).__name__)
    box["f"] = f
    return f, hook


def run(spec, env):
    sim = env.sim
    (f, hook) = make_subject(spec, env)
    env.objs["f"] = f
    cbn = [0]

    def obs(who):
        i = env.rec("obs-begin", who)
        st = observe(f)
        env.rec("obs", who, st, i)
        return st

    def client_body(ci, ops):
        def body():
            for op in ops:
                k = op[0]
                if k == "sleep":
                    env.sleep(op[1])
                elif k == "await":
                    env.await_(op[1], 2.0)
                elif k == "cancel":
                    i = env.rec("op", "cancel")
                    try:
                        r = f.cancel()
                    except BaseException as e:
                        if isinstance(e, type(None)):
                            raise
                        if e.__class__.__name__ == "SimAbort":
                            raise
                        env.rec("op-ret", "cancel", "raised", type(e).__name__, i)
                    else:
                        env.rec("op-ret", "cancel", r if isinstance(r, bool) else "nonbool:" + type(r).__name__, None, i)
                    obs("c%d" % ci)
                elif k in ("cb", "cbraise"):
                    cbn[0] += 1
                    me = cbn[0]

                    def cb(fut, me=me, k=k):
                        env.rec("cb-run", me, fut is f, fut.done(), observe(fut))
                        env.hit("cb-enter")
                        sim.yield_point("user-cb")   # user code is pre-emptible too
                        if k == "cbraise":
                            raise env.exc(("cb", me))
                    i = env.rec("op", "cb", me)
                    try:
                        f.add_done_callback(cb)
                    except Exception as e:
                        env.rec("op-ret", "cb", "raised", type(e).__name__, i)
                    else:
                        env.rec("op-ret", "cb", "ok", me, i)
                elif k in ("result", "exception", "wait", "as_completed"):
                    i = env.rec("op", k)
                    try:
                        if k == "result":
                            f.result(WAIT_T)
                        elif k == "exception":
                            f.exception(WAIT_T)
                        elif k == "wait":
                            (d, nd) = wait([f], timeout=WAIT_T)
                            if not d:
                                raise FTimeout()
                        else:
                            for _ in as_completed([f], timeout=WAIT_T):
                                pass
                        env.rec("op-ret", k, "released", None, i)
                    except CancelledError:
                        env.rec("op-ret", k, "released", None, i)
                    except FTimeout:
                        env.rec("op-ret", k, "timeout", None, i)
                    except Exception:
                        env.rec("op-ret", k, "released", None, i)
                    obs("c%d" % ci)
                elif k == "done":
                    obs("c%d" % ci)
                elif k == "running":
                    try:
                        r = f.running()
                        env.rec("running", bool(r))
                    except Exception as e:
                        env.rec("op-ret", "running", "raised", type(e).__name__, 0)
        return body

    if hook is not None:
        env.client(hook, "client-p")
    for ci, ops in enumerate(spec["clients"]):
        env.client(client_body(ci, ops))
    env.join_all()
    env.sleep(spec["settle"])
    obs("final")
    env.rec("final-done", f.done())


def check(spec, env):
    sim = env.sim
    if abnormal(sim):
        return []
    out = []
    kind = spec["kind"]
    log = sim.log
    # (1) single immutable outcome
    first = None
    first_seq = None
    for e in log:
        st = None
        if e[3] == "obs":
            st = e[5]
        elif e[3] == "cb-run":
            st = e[7]
        if st is None or st[0] == "pending":
            # a 'pending' reading contradicts an earlier terminal one only if that one had
            # been returned before this reading began (readings are intervals, not instants)
            if first is not None and st is not None and e[3] == "obs" and first_seq < e[6]:
                out.append({"oracle": "outcome-changed", "sig": "outcome-changed|%s|%s->pending" % (kind, first[0]),
                            "msg": "%s: observed %r, later observed pending again (event %r)" % (kind, first, e)})
                break
            continue
        if first is None:
            first = st
            first_seq = e[0]
        elif tuple(st) != tuple(first):
            out.append({"oracle": "outcome-changed", "sig": "outcome-changed|%s|%s->%s" % (kind, first[0], st[0]),
                        "msg": "%s: terminal outcome observed as %r and later as %r (event %r)" % (kind, first, st, e)})
            break
    # (2) cancel contract
    done_not_cancelled_seq = None
    for e in log:
        st = e[5] if e[3] == "obs" else (e[7] if e[3] == "cb-run" else None)
        if st is not None and st[0] in ("val", "exc") and done_not_cancelled_seq is None:
            done_not_cancelled_seq = e[0]
    rets = {}
    for e in log:
        if e[3] == "op-ret" and e[4] == "cancel":
            rets[e[7]] = e
    for e in log:
        if e[3] == "op" and e[4] == "cancel":
            r = rets.get(e[0])
            if r is None:
                continue
            val = r[5]
            if val == "raised":
                out.append({"oracle": "cancel-raised", "sig": "cancel-raised|%s|%s" % (kind, r[6]),
                            "msg": "%s: cancel() raised %s" % (kind, r[6])})
            elif val not in (True, False):
                out.append({"oracle": "cancel-nonbool", "sig": "cancel-nonbool|%s|%s" % (kind, val),
                            "msg": "%s: cancel() returned a non-bool (%s)" % (kind, val)})
            elif val is True:
                if first is not None and first[0] != "cancelled":
                    # any terminal non-cancelled observation contradicts a True cancel, whatever the order
                    out.append({"oracle": "cancel-true-not-cancelled", "sig": "cancel-true-but|%s|%s" % (kind, first[0]),
                                "msg": "%s: cancel() returned True but the future was observed %r" % (kind, first)})
            elif val is False:
                pass
            if val is True and done_not_cancelled_seq is not None and done_not_cancelled_seq < e[0]:
                out.append({"oracle": "cancel-after-done", "sig": "cancel-true-after-done|%s" % kind,
                            "msg": "%s: cancel() invoked after the future was observed finished normally returned True" % kind})
    # (3) callbacks exactly once, with the subject, only when done
    final_done = any(e[3] == "final-done" and e[4] for e in log)
    registered = {}
    for e in log:
        if e[3] == "op-ret" and e[4] == "cb" and e[5] == "ok":
            registered[e[6]] = e[0]
    runs = {}
    for e in log:
        if e[3] == "cb-run":
            runs.setdefault(e[4], []).append(e)
    attempted = set(e[5] for e in log if e[3] == "op" and e[4] == "cb")
    for me in sorted(attempted):
        rs = runs.get(me, [])
        if len(rs) > 1:
            out.append({"oracle": "callback-twice", "sig": "callback-runs|%s|%d" % (kind, len(rs)),
                        "msg": "%s: done-callback #%d ran %d times" % (kind, me, len(rs))})
        if final_done and len(rs) == 0:
            out.append({"oracle": "callback-lost", "sig": "callback-runs|%s|0" % kind,
                        "msg": "%s: done-callback #%d never ran although the future is done (registered: %s)" % (kind, me, me in registered)})
        for r in rs:
            if not r[5]:
                out.append({"oracle": "callback-arg", "sig": "callback-arg|%s" % kind,
                            "msg": "%s: done-callback received a different future" % kind})
            if not r[6] or r[7][0] == "pending":
                out.append({"oracle": "callback-before-done", "sig": "callback-before-done|%s" % kind,
                            "msg": "%s: done-callback ran while the future was not done (%r)" % (kind, r[7])})
    # (4) blocked callers are released by every kind of completion
    t_done = None
    for e in log:
        st = e[5] if e[3] == "obs" else (e[7] if e[3] == "cb-run" else None)
        if st is not None and st[0] != "pending":
            t_done = e[1]
            break
    inv = {e[0]: e for e in log if e[3] == "op"}
    for e in log:
        if e[3] == "op-ret" and e[4] in ("result", "exception", "wait", "as_completed") and e[5] == "timeout":
            if t_done is None and not final_done:
                # every workload's underlying work (callable, retries, polls, inputs, or the external
                # cancellation of the delegate) ends within the first virtual seconds: that
                # completion of whatever kind must release the caller
                ext = [x for x in log if x[3] == "ext-cancel"]
                out.append({"oracle": "waiter-not-released", "sig": "waiter-not-released|%s|%s|never-completed" % (kind, e[4]),
                            "msg": "%s: a caller blocked in %s() only returned by its %.0fs timeout at t=%.3fs and the future is still pending, "
                                   "although everything it depends on had ended long before (end=%s%s)"
                                   % (kind, e[4], WAIT_T, e[1] / 1e9, spec["end"], ", delegate cancelled behind its back at t=%.3fs" % (ext[0][1] / 1e9) if ext else "")})
            elif t_done is not None and t_done < e[1] - 1e9:
                out.append({"oracle": "waiter-not-released", "sig": "waiter-not-released|%s|%s|%s" % (kind, e[4], first[0] if first else "?"),
                            "msg": "%s: a caller blocked in %s() was not released: the future was observed %r at t=%.3fs "
                                   "but the call only returned by its %.0fs timeout at t=%.3fs"
                                   % (kind, e[4], first, t_done / 1e9, WAIT_T, e[1] / 1e9)})
    return out


def probes(spec, env):
    sim = env.sim
    log = sim.log
    pr = {"subject:" + spec["kind"]: 1, "end:" + spec["end"]: 1,
          "op:cancel": sum(1 for e in log if e[3] == "op" and e[4] == "cancel"),
          "cancel-returned-True": sum(1 for e in log if e[3] == "op-ret" and e[4] == "cancel" and e[5] is True),
          "op:add_done_callback": sum(1 for e in log if e[3] == "op" and e[4] == "cb"),
          "callback-runs": sum(1 for e in log if e[3] == "cb-run"),
          "waiters-released": sum(1 for e in log if e[3] == "op-ret" and e[5] == "released"),
          "fault:external-cancel": sum(1 for e in log if e[3] == "ext-cancel"),
          "fault:callback-raised": sum(1 for e in log if e[3] == "op" and e[4] == "cb"),
          "abnormal-runs": 1 if abnormal(sim) else 0}
    # an op overlapping completion: some op invoked before and returned after the first terminal observation
    t_first = None
    for e in log:
        st = e[5] if e[3] == "obs" else (e[7] if e[3] == "cb-run" else None)
        if st is not None and st[0] != "pending":
            t_first = e[0]
            break
    overlap = False
    if t_first is not None:
        inv = {e[0]: e for e in log if e[3] == "op"}
        for e in log:
            if e[3] == "op-ret" and e[-1] in inv and inv[e[-1]][0] < t_first < e[0]:
                overlap = True
                break
    pr["op-overlapping-completion"] = 1 if overlap else 0
    pr["_nontrivial"] = sim.preemptions > 0 and overlap
    return pr


def shrink(spec):
    def cp():
        return json.loads(json.dumps(spec))
    for c in range(len(spec["clients"])):
        if len(spec["clients"]) > 1:
            s = cp()
            del s["clients"][c]
            yield s
    for c in range(len(spec["clients"])):
        for o in range(len(spec["clients"][c])):
            s = cp()
            del s["clients"][c][o]
            if s["clients"][c]:
                yield s
    for k, v in (("blocker", 0), ("fail_first", 0), ("dur", 0), ("lib_inputs", False), ("ninputs", 1), ("cancel_fn", None)):
        if spec.get(k) and spec[k] != v:
            s = cp()
            s[k] = v
            yield s
