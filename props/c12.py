"""C12 - worker threads and references are reclaimed; pending futures keep working."""
import gc
import json
import weakref

from harness import runner
from harness.oracles import abnormal

PROP = "C12"
PLAN = {"quick": {"runs": 16000, "wall_s": 90}, "thorough": {"runs": 300000, "wall_s": 1200}}
RULE = ("Each run: one thread-owning executor (retry, poll, throttle, timeout, thread pool, the shared f_timeout executor; map "
        "as a thread-less control) over a thread pool or sync base, a history of completed, failed, cancelled-in-flight and "
        "cancelled-while-queued futures, then one trigger at a drawn moment relative to the worker loop: shutdown(), dropping "
        "the last reference (with or without futures still pending), or the interpreter-exit hook. All user objects are "
        "weakref-able and the harness holds only weak references; gc.collect() is an explicit scheduled operation. "
        "Non-trivial = a pre-emption inside library lines and at least one cancelled or failed future in the history.")
ASSUMPTIONS = ["user functions never reference their executor (documented caveat)",
               "retention is judged after a full gc.collect() (cycles are allowed)",
               "threads must be gone within 60 virtual seconds of the trigger; reliance on a fallback timer is reported, not flagged"]
LIB_THREADS = ("RetryExecutor", "PollExecutor", "ThrottleExecutor", "TimeoutExecutor", "ThreadPoolExecutor")
KINDS = ["retry", "poll", "throttle", "timeout", "pool", "map", "cos", "f_timeout"]


class Obj(object):
    """weakref-able user object (argument / result)"""
    __slots__ = ("tag", "__weakref__")

    def __init__(self, tag):
        self.tag = tag


class Work(object):
    """weakref-able callable; never references the executor"""
    __slots__ = ("env", "s", "dur", "fails", "n", "results", "__weakref__")

    def __init__(self, env, s, dur, fails, results):
        self.env, self.s, self.dur, self.fails, self.n, self.results = env, s, dur, fails, 0, results

    def __call__(self, arg):
        self.n += 1
        self.env.rec("call", self.s, self.n)
        if self.dur:
            self.env.sim.sleep(self.dur)
        self.env.hit("work-exit-%s" % (self.s,))
        if self.n <= self.fails:
            raise RuntimeError("scripted failure %s/%d" % (self.s, self.n))
        r = Obj(("r", self.s))
        self.results.append(weakref.ref(r))
        return r


def family(sig):
    return sig.rsplit("|", 1)[0]


def gen(rng, tier):
    kind = rng.choice(KINDS)
    mode = rng.choice(["refs", "refs", "drop", "drop-keep-futures", "drop-pending", "shutdown", "exithook"])
    if kind == "f_timeout" and mode in ("drop", "drop-pending", "shutdown", "drop-keep-futures"):
        mode = "refs"
    if kind in ("map", "cos") and mode == "drop-pending":
        mode = "drop"
    n = rng.choice([1, 2, 3, 4])
    jobs = []
    for s in range(n):
        jobs.append({"dur": rng.choice([0, 0.05, 0.2]), "fails": rng.choice([0, 0, 1, 5]),
                     # "work-exit": a second thread cancels just as the callable returns (around the
                     # hand-over from the delegate's completion to the executor's own bookkeeping)
                     "cancel_at": rng.choice([None, None, 0, 0.02, 0.1, "work-exit"])})
    if mode == "drop-keep-futures":
        # a failed future kept by the user pins, through its exception's traceback, the frames
        # it was raised under (plain Python semantics, not a reference kept by the library)
        for j in jobs:
            j["fails"] = 0
    spec = {"kind": kind, "mode": mode, "base": rng.choice(["pool", "pool", "sync"]) if kind != "pool" else "none",
            "jobs": jobs, "trigger_at": rng.choice([0, 0.01, 0.05, 0.3, 1.0]), "settle": 60.0,
            # other idle executors alive at the same time (interpreter-exit must reach all of them),
            # one of which may be dropped by another thread while the trigger is in progress
            "retry_sleep": rng.choice([0.05, 0.05, 40.0]),
            "bystanders": [rng.choice(["retry", "timeout", "poll", "throttle"]) for _ in range(rng.choice([0, 0, 1, 2, 3]))],
            "drop_bystander": rng.random() < 0.5}
    if mode == "drop-keep-futures" and kind == "retry" and rng.random() < 0.5:
        # a future cancelled between two attempts (its job sleeping out a long back-off) is a
        # finished future like any other: kept by the user, it must not keep the executor alive
        jobs[0] = {"dur": rng.choice([0.05, 0.1]), "fails": 1, "cancel_at": 0.3}
        spec["retry_sleep"] = 40.0
        spec["base"] = "pool"
    spec["sim"] = runner.draw_sim_cfg(rng, est=600)
    if any(j["cancel_at"] == "work-exit" for j in jobs):
        runner.prefer_place(spec["sim"], 0.4)
    spec["sim"]["horizon_s"] = 20000
    return spec


def make_executor(spec, env):
    from more_executors import Executors
    kind = spec["kind"]
    if kind == "pool":
        return Executors.thread_pool(max_workers=2)
    base = Executors.thread_pool(max_workers=2) if spec["base"] == "pool" else Executors.sync()
    if kind == "retry":
        # a long back-off keeps the submit thread in a timed wait: nothing the user has dropped
        # may stay referenced from there
        return base.with_retry(max_attempts=2, sleep=spec.get("retry_sleep", 0.05))
    if kind == "poll":
        def poll_fn(ds):
            for d in ds:
                d.yield_result(d.result)
        return base.with_poll(poll_fn, default_interval=0.5)
    if kind == "throttle":
        return base.with_throttle(1)
    if kind == "timeout":
        return base.with_timeout(500.0)
    if kind == "map":
        return base.with_map(lambda x: x)
    if kind == "cos":
        return base.with_cancel_on_shutdown()
    return None


def lib_alive(sim):
    return sorted(t.name for t in sim.threads if t.status != "D" and t.name.startswith(LIB_THREADS))


def run(spec, env):
    from concurrent.futures import Future
    from more_executors import futures as F
    from more_executors._impl import event as E
    sim = env.sim
    kind, mode = spec["kind"], spec["mode"]
    by = []
    for bk in (spec.get("bystanders", []) if mode == "exithook" else []):
        by.append(make_executor({"kind": bk, "base": "sync", "retry_sleep": 0.05}, env))
    ex = make_executor(spec, env)
    wr = {"future": [], "callable": [], "arg": [], "result": []}
    futs = []
    inputs = []
    for s, job in enumerate(spec["jobs"]):
        w = Work(env, s, job["dur"], job["fails"], wr["result"])
        a = Obj(("a", s))
        if kind == "f_timeout":
            inp = Future()
            inputs.append((inp, w, a))
            f = F.f_timeout(inp, 500.0)
        else:
            f = ex.submit(w, a)
        wr["future"].append(weakref.ref(f))
        wr["callable"].append(weakref.ref(w))
        wr["arg"].append(weakref.ref(a))
        futs.append(f)
        del w, a, f
    # cancels at drawn times (cancel in flight / while queued / between retries)
    plan = sorted((job["cancel_at"], s) for s, job in enumerate(spec["jobs"]) if isinstance(job["cancel_at"], (int, float)))
    racers = []
    for s, job in enumerate(spec["jobs"]):
        if job["cancel_at"] == "work-exit":
            def racer(s=s):
                env.await_("work-exit-%d" % s, 5.0)
                sim.yield_point("user")
                if s < len(futs):
                    env.rec("cancel", s, futs[s].cancel())
            racers.append(env.client(racer, "client-x%d" % s))
    t = 0.0
    ncancel = len(racers)
    for (at, s) in plan:
        if at > t:
            env.sleep(at - t)
            t = at
        r = futs[s].cancel()
        ncancel += 1
        env.rec("cancel", s, r)
    if kind == "f_timeout":
        # complete the inputs ourselves (there is no executor running the work)
        for (inp, w, a) in inputs:
            if inp.set_running_or_notify_cancel():
                try:
                    inp.set_result(w(a))
                except Exception as e:
                    inp.set_exception(e)
        del inp, w, a
        del inputs[:]
    env.objs["ncancel"] = ncancel
    for ts in racers:
        env.join(ts)
    del racers[:]

    def wait_all():
        for f in futs:
            try:
                f.result(120.0)
            except BaseException as e:
                if type(e).__name__ == "SimAbort":
                    raise
            del f
        try:
            del e
        except NameError:
            pass

    def alive_kinds():
        # let every other thread finish the iteration it is in (they may hold references in
        # local variables transiently): the clock only advances once nobody else can run
        env.sleep(1.0)
        gc.collect()
        return sorted(k for k, lst in wr.items() if any(r() is not None for r in lst))

    if mode == "refs":
        wait_all()
        states = ["done" if f.done() else "pending" for f in futs]
        env.rec("states", states)
        del futs[:]
        env.rec("alive-after-drop", alive_kinds(), all(s == "done" for s in states))
        # executor lives on: it must still serve a fresh submission
        if ex is not None:
            w = Work(env, "probe", 0, 0, [])
            try:
                env.rec("probe", ex.submit(w, Obj("p")).result(60.0).tag[0])
            except Exception as e:
                env.rec("probe", "raised " + type(e).__name__)
            del w
        if spec["trigger_at"]:
            env.sleep(spec["trigger_at"])
        if ex is not None:
            ex.shutdown(True)
    elif mode == "shutdown":
        if spec["trigger_at"]:
            env.sleep(spec["trigger_at"])
        env.rec("trigger", "shutdown")
        ex.shutdown(False)
    elif mode == "exithook":
        if spec["trigger_at"]:
            env.sleep(spec["trigger_at"])
        if by and spec.get("drop_bystander"):
            def dropper():
                env.await_("exit-begin", 5.0)
                by.pop(0)
                gc.collect()
            env.client(dropper, "client-drop")
        env.rec("trigger", "exithook")
        env.hit("exit-begin")
        E.GLOBAL_HANDLER.on_exiting()
        if kind == "pool" or spec["base"] == "pool":
            # the stdlib's own exit hook for thread pools
            import concurrent.futures.thread as T
            T._python_exit()
    elif mode in ("drop", "drop-keep-futures"):
        wait_all()
        if mode == "drop":
            del futs[:]
        else:
            env.sleep(1.0)   # completed futures stay in the user's hands; they must not pin the executor
        if spec["trigger_at"]:
            env.sleep(spec["trigger_at"])
        env.rec("trigger", "drop")
        ex = None
        gc.collect()
    elif mode == "drop-pending":
        # drop the executor while futures are still pending: they must still complete
        if spec["trigger_at"]:
            env.sleep(min(spec["trigger_at"], 0.05))
        env.rec("trigger", "drop-pending")
        ex = None
        gc.collect()
        outs = []
        for s, f in enumerate(futs):
            try:
                r = f.result(120.0)
                outs.append("val" if getattr(r, "tag", None) == ("r", s) else "wrong")
            except BaseException as e:
                if type(e).__name__ == "SimAbort":
                    raise
                outs.append(type(e).__name__)
            del f
        try:
            del e, r
        except NameError:
            pass
        env.rec("pending-outcomes", outs)
        del futs[:]
        gc.collect()
    if mode != "refs":
        # the cyclic collector runs "now and then" in a real process: here at three scheduled
        # points; the threads then get a last virtual second to notice before they are counted
        for _ in range(3):
            env.sleep(spec["settle"] / 3.0)
            gc.collect()
        env.sleep(1.0)
        env.rec("alive-threads", lib_alive(sim))


def check(spec, env):
    sim = env.sim
    if abnormal(sim):
        return []
    log = sim.log
    out = []
    kind, mode = spec["kind"], spec["mode"]
    for e in log:
        if e[3] == "alive-after-drop" and e[4] and e[5]:
            out.append({"oracle": "retention", "sig": "retained|%s|%s" % (kind, "+".join(e[4])),
                        "msg": "%s executor (base %s): after every future was done and dropped and gc.collect() ran, the library still kept alive: %s; jobs %r"
                               % (kind, spec["base"], ", ".join(e[4]), spec["jobs"])})
        if e[3] == "probe" and e[4] != "r":
            out.append({"oracle": "still-serving", "sig": "probe-failed|%s" % kind,
                        "msg": "%s executor no longer serves submissions after its earlier futures were dropped: %s" % (kind, e[4])})
        if e[3] == "alive-threads" and e[4]:
            out.append({"oracle": "thread-exit", "sig": "thread-alive|%s|%s|%s" % (kind, mode, ",".join(sorted(set(a.rstrip("0123456789-_") for a in e[4])))),
                        "msg": "%s executor, trigger %s at t=%.2fs: worker threads still alive %.0f virtual s later: %r"
                               % (kind, mode, spec["trigger_at"], spec["settle"], e[4])})
        if e[3] == "pending-outcomes":
            for s, o in enumerate(e[4]):
                job = spec["jobs"][s]
                cancelled = job["cancel_at"] is not None
                ok = {"retry": 1, }.get(kind, 0)
                expect_fail = job["fails"] > (1 if kind == "retry" else 0)
                if cancelled:
                    continue
                if o == "TimeoutError":
                    out.append({"oracle": "pending-completes", "sig": "pending-never-completed|%s" % kind,
                                "msg": "%s executor dropped while submission %d was pending: the future never completed" % (kind, s)})
                elif o == "wrong" or (o == "val") == expect_fail:
                    out.append({"oracle": "pending-completes", "sig": "pending-wrong-outcome|%s|%s" % (kind, o),
                                "msg": "%s executor dropped while submission %d was pending: outcome %s, expected %s"
                                       % (kind, s, o, "failure" if expect_fail else "its value")})
    return out


def probes(spec, env):
    sim = env.sim
    log = sim.log
    pr = {"executor:" + spec["kind"]: 1, "trigger:" + spec["mode"]: 1,
          "history:cancel-True": sum(1 for e in log if e[3] == "cancel" and e[5] is True),
          "history:cancel-False": sum(1 for e in log if e[3] == "cancel" and e[5] is False),
          "history:failed-jobs": sum(1 for j in spec["jobs"] if j["fails"]),
          "gc.collect()-calls(explicit)": 4, "abnormal-runs": 1 if abnormal(sim) else 0,
          "clock-jumps-to-library-timers-after-trigger": 0}
    trig = [e[0] for e in log if e[3] == "trigger"]
    if trig:
        pr["clock-jumps-to-library-timers-after-trigger"] = sum(
            1 for e in log if e[3] == "clock-jump" and e[0] > trig[0] and any(w[0].startswith(LIB_THREADS) for w in e[5]))
    pr["_nontrivial"] = sim.lib_preemptions > 0 and (pr["history:cancel-True"] + pr["history:cancel-False"] + pr["history:failed-jobs"]) > 0
    return pr


def shrink(spec):
    def cp():
        return json.loads(json.dumps(spec))
    for i in range(len(spec["jobs"])):
        if len(spec["jobs"]) > 1:
            s = cp()
            del s["jobs"][i]
            yield s
    for i, j in enumerate(spec["jobs"]):
        for k, v in (("cancel_at", None), ("fails", 0), ("dur", 0)):
            if j[k] != v:
                s = cp()
                s["jobs"][i][k] = v
                yield s
    if spec["trigger_at"]:
        s = cp()
        s["trigger_at"] = 0
        yield s
