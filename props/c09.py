"""C09 - timeouts fire exactly once, never early, and at the deadline."""
import json

from harness import runner
from harness.env import SpyExecutor, SpyFuture
from harness.oracles import abnormal
from harness.stackrun import fut_state, state_desc

PROP = "C09"
PLAN = {"quick": {"runs": 24000, "wall_s": 90}, "thorough": {"runs": 300000, "wall_s": 1200}}
RULE = ("Each run: a TimeoutExecutor (default timeout + submit_timeout) over a scripted delegate, or f_timeout over harness "
        "futures, with 1-6 futures whose timeouts are drawn from 0.05-120 s, submitted at drawn virtual times from 1-3 "
        "threads; the work finishes before, exactly at, after the deadline, or never; shorter deadlines arrive while the "
        "timeout thread sleeps on a longer one. Every cancel() reaching a returned future is recorded by an instance-level "
        "spy. Non-trivial = a pre-emption, at least two futures and at least one timeout that fired.")
ASSUMPTIONS = ["deadline = time of the clock read inside submit: between submit's invocation and its return",
               "work ending within slack of its deadline is a boundary case (0 or 1 attempts)",
               "under injected stalls only 'never early' and 'at most once' are judged"]
SLACK = 0.005
TIMEOUTS = [0.05, 0.1, 0.25, 0.5, 1.0, 5.0, 30.0, 120.0]


def family(sig):
    return sig.rsplit("|", 1)[0]


def gen(rng, tier):
    mode = rng.choice(["executor", "executor", "f_timeout"])
    n = rng.choice([1, 2, 3, 4, 6])
    nclients = rng.choice([1, 2, 3])
    default = rng.choice(TIMEOUTS)
    futs = []
    for i in range(n):
        t = rng.choice([None, None] + TIMEOUTS) if mode == "executor" else rng.choice(TIMEOUTS)
        eff = default if t is None else t
        r = rng.random()
        if r < 0.35:
            dur = max(0.0, eff - rng.choice([0.05, 0.1, 0.5]))     # before the deadline
        elif r < 0.45:
            dur = eff                                               # exactly at
        elif r < 0.75:
            dur = eff + rng.choice([0.05, 0.5, 5.0])                # after
        else:
            dur = "never"
        futs.append({"t": t, "at": rng.choice([0, 0, 0.05, 0.1, 0.5, 1.0, 4.0]), "client": rng.randrange(nclients), "dur": dur})
    if mode == "executor":
        for i in range(1, n):
            j = rng.randrange(i)
            if rng.random() < 0.4 and futs[j]["dur"] != "never" and futs[j]["client"] != futs[i]["client"]:
                # "wait for that one, then submit the next": the submission lands while the timeout
                # thread is busy with the completion it has just been woken for
                futs[i]["after"] = j
    spec = {"mode": mode, "default": default, "futs": futs, "nclients": nclients,
            "workers": rng.choice([1, 2, 8]) if mode == "executor" else 8}
    horizon = max([(default if f["t"] is None else f["t"]) + f["at"] for f in futs]) + 10.0
    spec["settle"] = horizon + 10.0
    spec["sim"] = runner.draw_sim_cfg(rng, est=400, stall_ok=True)
    if any("after" in f for f in futs):
        runner.prefer_place(spec["sim"], 0.7)
    spec["sim"]["horizon_s"] = 100000
    return spec


def run(spec, env):
    from more_executors import Executors, futures as F
    sim = env.sim
    mode = spec["mode"]
    futs = {}
    raw = {}
    if mode == "executor":
        spy = SpyExecutor(env, n=spec["workers"])
        ex = Executors.with_timeout(spy, spec["default"])

    def spy_cancel(i, f):
        orig = f.cancel

        def cancel():
            k = env.rec("to-cancel", i)
            r = orig()
            env.rec("to-cancel-ret", i, r, k)
            return r
        f.cancel = cancel

    def client_body(c):
        def body():
            mine = sorted((f["at"], i) for i, f in enumerate(spec["futs"]) if f["client"] == c)
            t = 0.0
            for (at, i) in mine:
                if at > t:
                    env.sleep(at - t)
                    t = at
                fs = spec["futs"][i]
                if "after" in fs:
                    env.await_("work-exit-%d" % fs["after"], 60.0)
                k = env.rec("submit", i)
                if mode == "executor":
                    def fn(i=i, fs=fs):
                        env.rec("work", i)
                        sim.sleep(100000.0 if fs["dur"] == "never" else fs["dur"])
                        env.rec("work-end", i)
                        env.hit("work-exit-%d" % i)
                        return ("v", i)
                    fn.tag = i
                    if fs["t"] is None:
                        f = ex.submit(fn)
                    else:
                        f = ex.submit_timeout(fs["t"], fn)
                else:
                    r = SpyFuture(env, "in%d" % i)
                    raw[i] = r
                    f = F.f_timeout(r, fs["t"])
                spy_cancel(i, f)
                futs[i] = f
                env.rec("submit-ret", i, k)
        return body

    def completer():
        # f_timeout mode: finish the input futures at their scripted times
        plan = sorted((f["at"] + f["dur"], i) for i, f in enumerate(spec["futs"]) if f["dur"] != "never")
        t = 0.0
        for (at, i) in plan:
            if at > t:
                env.sleep(at - t)
                t = at
            # the input exists once the submitter reached it
            for _ in range(50):
                if i in raw:
                    break
                sim.sleep(0.001)
            r = raw.get(i)
            if r is None:
                continue
            env.rec("work-end", i)
            try:
                if r.set_running_or_notify_cancel():
                    r.set_result(("v", i))
                env.rec("work-fin", i)
            except Exception as e:
                env.rec("complete-raised", i, type(e).__name__)

    for c in range(spec["nclients"]):
        env.client(client_body(c))
    if mode == "f_timeout":
        env.client(completer, "client-comp")
    env.join_all()
    env.sleep(spec["settle"])
    for i, f in sorted(futs.items()):
        env.rec("final", i, state_desc(fut_state(f)))


def check(spec, env):
    sim = env.sim
    if abnormal(sim):
        return []
    log = sim.log
    out = []
    mode = spec["mode"]
    stall_free = not spec["sim"].get("stall_p")
    slack = int((SLACK + sim.clock_reads * sim.tick_ns / 1e9) * 1e9)
    sub_inv, sub_ret, attempts, done_t, finals, fin_t, lab = {}, {}, {}, {}, {}, {}, {}
    for e in log:
        if e[3] == "submit":
            sub_inv[e[4]] = e
        elif e[3] == "submit-ret":
            sub_ret[e[4]] = e
        elif e[3] == "to-cancel":
            attempts.setdefault(e[4], []).append(e)
        elif e[3] == "work-end":
            done_t.setdefault(e[4], e[1])
        elif e[3] == "work-fin":
            fin_t.setdefault(e[4], e[1])
        elif e[3] == "spy-submit":
            lab[e[4]] = e[5]
        elif e[3] == "spy-fin" and lab.get(e[4]) is not None:
            fin_t.setdefault(lab[e[4]], e[1])
        elif e[3] == "final":
            finals[e[4]] = e[5]
    for i, fs in enumerate(spec["futs"]):
        if i not in sub_ret:
            continue
        T = int(round((spec["default"] if fs["t"] is None else fs["t"]) * 1e9))
        lo = sub_inv[i][1] + T            # earliest possible deadline
        hi = sub_ret[i][1] + T            # latest possible deadline
        att = attempts.get(i, [])
        # never early
        for a in att:
            if a[1] < lo:
                out.append({"oracle": "early", "sig": "cancel-before-deadline|%s" % mode,
                            "msg": "future %d (timeout %.3fs, submitted t=%.6fs) received a cancel() at t=%.6fs, %.6fs before its deadline"
                                   % (i, T / 1e9, sub_inv[i][1] / 1e9, a[1] / 1e9, (lo - a[1]) / 1e9)})
                break
        if len(att) > 1:
            out.append({"oracle": "more-than-once", "sig": "cancel-attempts|%s|%d" % (mode, len(att)),
                        "msg": "future %d received %d cancel() attempts from the timeout machinery (at t=%s)" % (i, len(att), [a[1] / 1e9 for a in att])})
        # when did the work end?  (executor mode with a busy delegate: the callable may start late)
        # the future became done somewhere in [wd, wf]: start of the work's end .. set_result returned
        wd = done_t.get(i)
        wf = fin_t.get(i, None if wd is None else 1 << 62)
        if wd is not None and not (wf < lo - slack or wd > hi + slack):
            continue          # done-ness at the deadline is ambiguous: boundary case
        finished_before = wd is not None and wf < lo - slack
        if finished_before:
            if att:
                out.append({"oracle": "cancel-of-done", "sig": "cancel-after-completion|%s" % mode,
                            "msg": "future %d finished at t=%.6fs, before its deadline (>= t=%.6fs), yet received a cancel() at t=%.6fs"
                                   % (i, wd / 1e9, lo / 1e9, att[0][1] / 1e9)})
            st = finals.get(i)
            if st is not None and st != ["val", ["v", i]]:
                out.append({"oracle": "outcome-changed", "sig": "outcome-changed|%s" % mode,
                            "msg": "future %d finished before its deadline but ended %r" % (i, st)})
            continue
        # not done at its deadline: exactly one attempt, made at the deadline
        if not stall_free:
            continue          # a stall spanning the deadline may let the work finish first
        if not att:
            out.append({"oracle": "missing", "sig": "no-cancel-at-deadline|%s" % mode,
                        "msg": "future %d (timeout %.3fs, submitted t=%.6fs) was not done at its deadline but never received a cancel() (work end: %r)"
                               % (i, T / 1e9, sub_ret[i][1] / 1e9, None if wd is None else wd / 1e9)})
        elif stall_free and att[0][1] > hi + slack:
            out.append({"oracle": "late", "sig": "cancel-late|%s" % mode,
                        "msg": "future %d: deadline at most t=%.6fs, cancel() attempted only at t=%.6fs (%.6fs late, slack %.6fs)"
                               % (i, hi / 1e9, att[0][1] / 1e9, (att[0][1] - hi) / 1e9, slack / 1e9)})
    return out


def probes(spec, env):
    sim = env.sim
    log = sim.log
    fired = sum(1 for e in log if e[3] == "to-cancel")
    pr = {"mode:" + spec["mode"]: 1, "timeouts-fired": fired,
          "timeout-cancel-succeeded": sum(1 for e in log if e[3] == "to-cancel-ret" and e[5] is True),
          "futures": len(spec["futs"]),
          "work-never-finishes": sum(1 for f in spec["futs"] if f["dur"] == "never"),
          "abnormal-runs": 1 if abnormal(sim) else 0}
    pr["_nontrivial"] = sim.preemptions > 0 and len(spec["futs"]) >= 2 and fired > 0
    return pr


def shrink(spec):
    def cp():
        return json.loads(json.dumps(spec))
    for i in range(len(spec["futs"])):
        if len(spec["futs"]) > 1:
            s = cp()
            del s["futs"][i]
            yield s
    for i, f in enumerate(spec["futs"]):
        if f["at"]:
            s = cp()
            s["futs"][i]["at"] = 0
            yield s
        if f["client"]:
            s = cp()
            s["futs"][i]["client"] = 0
            yield s
