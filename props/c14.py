"""C14 - f_and / f_or are `and` / `or` folds over the order in which inputs finish."""
import itertools
import json
from concurrent.futures import CancelledError, Future

from harness import runner
from harness.env import SpyFuture
from harness.oracles import abnormal
from harness.stackrun import fut_state, state_desc

PROP = "C14"
PLAN = {"quick": {"runs": 20000, "wall_s": 90}, "thorough": {"runs": 500000, "wall_s": 1200}}
RULE = ("Each run: f_or or f_and over 1-5 inputs (plain futures, library futures, f_nocancel-wrapped, duplicates) whose outcomes "
        "are truthy / falsy values of several types, exceptions, cancellations or never-finishing, completed by 1-3 threads in "
        "scheduler-chosen order (some already done at construction), with an optional cancel() of the output. Oracle: the output "
        "equals the fold over SOME total order of the completion intervals consistent with real-time precedence (enumerated), "
        "losers get cancel(), shields hold, a single input is returned as is. Non-trivial = a pre-emption and at least two "
        "inputs completed by different threads.")
ASSUMPTIONS = ["an input's completion is the interval [before set_result/cancel, after it returned]: overlapping completions may be ordered either way"]
class B(object):
    """a value whose truthiness is scripted (stands for 'any type')"""

    def __init__(self, flag, i):
        self.flag, self.i = flag, i

    def __bool__(self):
        return self.flag

    def __repr__(self):
        return "B(%r,%d)" % (self.flag, self.i)


def make_value(truthy, kind, i):
    """A fresh, uniquely identifiable object of one of several types with the wanted truthiness."""
    if truthy:
        return [[i], i + 1000, "x%d" % i, B(True, i), (i, "t"), {i: 1}][kind % 6]
    return [[], B(False, i), {}, set(), bytearray(), B(False, i)][kind % 6]


def family(sig):
    return sig.rsplit("|", 1)[0]


def gen(rng, tier):
    op = rng.choice(["or", "and"])
    n = rng.choice([1, 2, 2, 3, 3, 4, 5])
    ins = []
    for i in range(n):
        ins.append({"end": rng.choice(["truthy", "truthy", "falsy", "falsy", "exc", "cancel", "never"]),
                    "v": rng.randrange(6), "at": rng.choice([None, 0, 0, 0.05, 0.1]), "by": rng.randrange(3),
                    "wrap": rng.choice([None, None, None, "lib", "nocancel"]),
                    # an input that FAILED WITH a CancelledError instance is failed, not cancelled
                    "cerr": rng.random() < 0.15, "falsy_exc": rng.random() < 0.12,
                    # the input reports running() before it finishes (work in progress): it must still be asked
                    "pre_running": rng.random() < 0.15})
    spec = {"op": op, "ins": ins, "dup": (rng.randrange(n), rng.randrange(n)) if n >= 2 and rng.random() < 0.2 else None,
            "cancel_at": rng.choice([None, None, None, 0, 0.05]), "settle": 5.0,
            # the caller's own clean-up: a done-callback on the output that cancels one of the inputs
            "cleanup_cb": rng.randrange(n) if n >= 2 and rng.random() < 0.2 else None}
    spec["sim"] = runner.draw_sim_cfg(rng, est=300)
    spec["sim"]["horizon_s"] = 5000
    return spec


def run(spec, env):
    from more_executors import futures as F
    from more_executors._impl.map import MapFuture
    sim = env.sim
    ins = spec["ins"]
    n = len(ins)
    raw = [SpyFuture(env, "in%d" % i) for i in range(n)]
    results = {}
    for i, inp in enumerate(ins):
        if inp["end"] == "truthy":
            results[i] = make_value(True, inp["v"], i)
        elif inp["end"] == "falsy":
            results[i] = make_value(False, inp["v"], i)
        elif inp["end"] == "exc":
            results[i] = CancelledError() if inp.get("cerr") else env.exc(("in", i), "FalsyErr" if inp.get("falsy_exc") else "ScriptedError")
    env.objs["results"] = results

    def complete(i):
        inp = ins[i]
        r = raw[i]
        b = env.rec("complete", i, inp["end"])
        try:
            if inp["end"] == "cancel":
                if Future.cancel(r):
                    r.set_running_or_notify_cancel()
            elif r.running():
                if inp["end"] == "exc":
                    r.set_exception(results[i])
                else:
                    r.set_result(results[i])
            elif not r.set_running_or_notify_cancel():
                env.rec("complete-skipped", i)
            elif inp["end"] == "exc":
                r.set_exception(results[i])
            else:
                r.set_result(results[i])
        except Exception as e:
            from sim.core import _scrub
            env.rec("complete-raised", i, type(e).__name__, _scrub(str(e))[:60])
        env.rec("complete-ret", i, b)

    for i, inp in enumerate(ins):
        if inp.get("pre_running") and (inp["end"] == "never" or (inp["end"] != "cancel" and inp["at"] is not None)):
            raw[i].set_running_or_notify_cancel()
    for i, inp in enumerate(ins):
        if inp["at"] is None and inp["end"] != "never":
            complete(i)        # already finished when the combinator is built
    wrapped = []
    for i, inp in enumerate(ins):
        f = raw[i]
        if inp["wrap"] == "lib":
            f = MapFuture(f)
        elif inp["wrap"] == "nocancel":
            f = F.f_nocancel(f)
        wrapped.append(f)
    args = list(wrapped)
    if spec["dup"]:
        (a, b) = spec["dup"]
        args[b] = args[a]
    env.objs["args_idx"] = [wrapped.index(f) for f in args]
    try:
        out = (F.f_or if spec["op"] == "or" else F.f_and)(*args)
    except Exception as e:
        from sim.core import _scrub
        env.rec("build-raised", type(e).__name__, _scrub(str(e))[:80])
        return
    env.rec("built")
    env.objs["single_is_input"] = (out is args[0]) if len(args) == 1 else None
    if spec.get("cleanup_cb") is not None and len(args) > 1:
        j = spec["cleanup_cb"]

        def cleanup(_f):
            env.rec("cleanup-cancel", j)
            sim.yield_point("user-cb")
            wrapped[j].cancel()
        out.add_done_callback(cleanup)

    def completer(k):
        def body():
            mine = sorted((inp["at"], i) for i, inp in enumerate(ins) if inp["by"] == k and inp["at"] is not None and inp["end"] != "never")
            t = 0.0
            for (at, i) in mine:
                if at > t:
                    env.sleep(at - t)
                    t = at
                sim.yield_point("user")
                complete(i)
        return body

    def canceller():
        if spec["cancel_at"]:
            env.sleep(spec["cancel_at"])
        i = env.rec("out-cancel")
        try:
            r = out.cancel()
        except Exception as e:
            r = "raised " + type(e).__name__
        env.rec("out-cancel-ret", r, i)

    for k in range(3):
        env.client(completer(k), "client-c%d" % k)
    if spec["cancel_at"] is not None:
        env.client(canceller, "client-x")
    env.join_all()
    env.sleep(spec["settle"])
    st = fut_state(out)
    env.objs["final"] = st
    env.rec("final", state_desc(st))
    env.objs["raw_cancels"] = [f.cancel_calls for f in raw]
    env.objs["raw_done"] = [f.done() for f in raw]


def fold(op, order, ins, total):
    """Outcome index (or 'cancelled'/'pending') of folding finished inputs in `order`; `total` = number
    of argument slots (duplicates count once per distinct future)."""
    seen = 0
    for pos, i in enumerate(order):
        e = ins[i]["end"]
        seen += 1
        last = (seen == total)
        if op == "or":
            if e == "truthy" or last:
                return i
        else:
            if e in ("falsy", "exc", "cancel") or last:
                return i
    return None   # not decided


def check(spec, env):
    sim = env.sim
    if abnormal(sim):
        return []
    log = sim.log
    out = []
    op = spec["op"]
    ins = spec["ins"]
    for e in log:
        if e[3] == "build-raised":
            return [{"oracle": "construct", "sig": "f_%s-raised|%s" % (op, e[4]), "msg": "f_%s(...) raised %s: %s; inputs %r dup %r" % (op, e[4], e[5], ins, spec["dup"])}]
        if e[3] == "complete-raised":
            out.append({"oracle": "completion-raised", "sig": "input-completion-raised|%s|%s" % (op, e[5]),
                        "msg": "completing input %d raised %s (%s) out of the combinator's done-callback; inputs %r dup %r" % (e[4], e[5], e[6], ins, spec["dup"])})
    st = env.objs.get("final")
    if st is None:
        return out
    results = env.objs["results"]
    args_idx = env.objs["args_idx"]
    distinct = sorted(set(args_idx))
    if len(args_idx) == 1:
        if env.objs.get("single_is_input") is False:
            out.append({"oracle": "single", "sig": "single-input-not-returned-as-is|%s" % op, "msg": "f_%s(f) did not return f itself" % op})
        return out
    out_cancelled_by_client = any(e[3] == "out-cancel-ret" and e[4] is True for e in log)
    # completion intervals of the distinct inputs that finished on their own
    beg = {e[4]: e[0] for e in log if e[3] == "complete"}
    end = {e[4]: e[0] for e in log if e[3] == "complete-ret"}
    skipped = set(e[4] for e in log if e[3] == "complete-skipped")
    # inputs that were already finished when the combinator was built are observed by it at
    # construction (in argument order): the library cannot know which of them finished first,
    # so they are mutually unordered, and all precede later completions
    built = [e[0] for e in log if e[3] == "built"]
    if built:
        for i in list(beg):
            if i in end and end[i] < built[0]:
                beg[i] = end[i] = built[0]
    fin = [i for i in distinct if i in beg and i in end and i not in skipped]
    allowed = set()
    for order in itertools.permutations(fin):
        ok = True
        for a in range(len(order)):
            for b in range(a + 1, len(order)):
                if end[order[b]] < beg[order[a]]:
                    ok = False
                    break
            if not ok:
                break
        if ok:
            allowed.add(fold(op, order, ins, len(distinct)))
    def outcome_of(i):
        if i is None:
            return ("pending",)
        e = ins[i]["end"]
        if e == "cancel":
            return ("cancelled",)
        if e == "exc":
            return ("exc", i)
        return ("val", i)
    allowed_outcomes = set(outcome_of(i) for i in allowed)
    if st[0] == "val":
        got = [("val", i) for i in results if ins[i]["end"] in ("truthy", "falsy") and results[i] is st[1]]
        got = got[0] if got else ("val", "?")
    elif st[0] == "exc":
        got = [("exc", i) for i in results if results[i] is st[1]]
        got = got[0] if got else ("exc", "?")
    else:
        got = (st[0],)
    if out_cancelled_by_client and got == ("cancelled",):
        pass
    elif skipped and got not in allowed_outcomes:
        pass   # an input was cancelled by the combinator before its completer ran: covered by the chosen order
    elif got not in allowed_outcomes:
        out.append({"oracle": "fold", "sig": "not-a-fold|%s|%s" % (op, got[0]),
                    "msg": "f_%s ended %r (%r) but the fold over every completion order consistent with real time allows only %r; "
                           "inputs %r dup %r; completions %r"
                           % (op, got, state_desc(st), sorted(allowed_outcomes, key=str), ins, spec["dup"], [(i, beg[i], end[i]) for i in fin])})
    # losers are cancelled; shields hold
    decided = st[0] != "pending"
    rc = env.objs["raw_cancels"]
    for i in distinct:
        inp = ins[i]
        if inp["wrap"] == "nocancel" and rc[i]:
            out.append({"oracle": "shield", "sig": "nocancel-pierced|%s" % op, "msg": "input %d behind f_nocancel received %d cancel() calls" % (i, rc[i])})
        if decided and inp["end"] == "never" and inp["wrap"] != "nocancel" and rc[i] == 0:
            out.append({"oracle": "losers", "sig": "pending-input-not-cancelled|%s|%s" % (op, "out-cancelled" if got == ("cancelled",) else "decided"),
                        "msg": "f_%s output ended %r but input %d, still pending, never received cancel(); inputs %r" % (op, got, i, ins)})
    return out


def probes(spec, env):
    sim = env.sim
    log = sim.log
    threads = set(e[2] for e in log if e[3] == "complete" and e[2] != 0)
    pr = {"op:" + spec["op"]: 1, "inputs": len(spec["ins"]), "duplicates": 1 if spec["dup"] else 0,
          "completions-by-other-threads": sum(1 for e in log if e[3] == "complete" and e[2] != 0),
          "fault:input-cancelled": sum(1 for e in log if e[3] == "complete" and e[5] == "cancel"),
          "fault:output-cancelled": sum(1 for e in log if e[3] == "out-cancel"),
          "loser-cancels": sum(env.objs.get("raw_cancels") or [0]), "abnormal-runs": 1 if abnormal(sim) else 0}
    pr["_nontrivial"] = sim.preemptions > 0 and len(threads) >= 2
    return pr


def shrink(spec):
    def cp():
        return json.loads(json.dumps(spec))
    n = len(spec["ins"])
    for i in range(n):
        if n > 2 and (not spec["dup"] or i not in spec["dup"]):
            s = cp()
            del s["ins"][i]
            if s["dup"]:
                s["dup"] = [d - (1 if d > i else 0) for d in s["dup"]]
            yield s
    if spec["cancel_at"] is not None:
        s = cp()
        s["cancel_at"] = None
        yield s
    for i, inp in enumerate(spec["ins"]):
        if inp["wrap"]:
            s = cp()
            s["ins"][i]["wrap"] = None
            yield s
        if inp["at"]:
            s = cp()
            s["ins"][i]["at"] = 0
            yield s
    if spec["dup"]:
        s = cp()
        s["dup"] = None
        yield s
