"""C03 - no future is lost; progress never hinges on an unrelated fallback timer."""
import json

from harness import runner, model
from harness.oracles import abnormal
from harness.stackgen import gen_layers
from harness.stackrun import StackRun, fut_state, state_desc, tap_submits
from harness.env import SpyExecutor, SpyFuture, desc

PROP = "C03"
PLAN = {"quick": {"runs": 16000, "wall_s": 90}, "thorough": {"runs": 200000, "wall_s": 1200}}
RULE = ("Three workload families per seed: (A) sequential submit->result on a random static stack, completion time "
        "compared with the exact model bound (callable durations + retry delays + poll intervals); (B) concurrent "
        "clients with cancels through the derived future and cancellation behind its back (delegate reaped, inner "
        "timeout layer), every future must be terminal once all underlying work is; (C) f_* combinators over inputs "
        "completed / failed / cancelled by other threads. Non-trivial = at least one pre-emption inside a run that "
        "exercised its trigger (a retry, a poll, an external cancel, or a multi-input combinator).")
ASSUMPTIONS = ["executors are not shut down in these workloads",
               "family A is stall-free (promptness oracle); thread stalls are injected only in families B and C",
               "a derived future may end cancelled or failed after an external cancel - either satisfies the property"]

SLACK = 0.02


def family(sig):
    return sig.rsplit("|", 1)[0]


def gen_timeouts(rng):
    """Mode T: futures that never finish on their own (but can be cancelled), given different
    timeouts through f_timeout (one shared executor) or TimeoutExecutor.submit_timeout, created at
    drawn times by one or two threads: each is finished (cancelled) no later than its own timeout
    implies, whatever the other deadlines are."""
    n = rng.choice([2, 2, 3, 4])
    items = []
    for i in range(n):
        items.append({"timeout": rng.choice([0.1, 0.2, 0.5, 2.0, 12.0]), "at": rng.choice([0, 0, 0.01, 0.05, 0.3]), "by": rng.randrange(2)})
    spec = {"mode": "T", "via": rng.choice(["f_timeout", "submit_timeout"]), "items": items, "settle": 20.0}
    spec["sim"] = runner.draw_sim_cfg(rng, est=300, stall_ok=False)
    spec["sim"]["horizon_s"] = 20000
    return spec


def run_timeouts(spec, env):
    from more_executors import Executors, futures as F
    sim = env.sim
    spy = SpyExecutor(env, n=0)     # no workers: the submitted callables stay queued, hence cancellable
    ex = Executors.with_timeout(spy, 5000.0) if spec["via"] == "submit_timeout" else None
    outs = {}

    def forever():
        sim.sleep(4000.0)

    def creator(k):
        def body():
            mine = sorted((it["at"], i) for i, it in enumerate(spec["items"]) if it["by"] == k)
            t = 0.0
            for (at, i) in mine:
                if at > t:
                    env.sleep(at - t)
                    t = at
                it = spec["items"][i]
                b = env.rec("create", i, it["timeout"])
                if ex is not None:
                    f = ex.submit_timeout(it["timeout"], forever)
                else:
                    f = F.f_timeout(SpyFuture(env, "in%d" % i), it["timeout"])
                f.add_done_callback(lambda fut, i=i: env.rec("out-done", i))
                outs[i] = f
                env.rec("created", i, b)
        return body

    for k in range(2):
        env.client(creator(k), "client-c%d" % k)
    env.join_all()
    env.sleep(spec["settle"])
    for i, f in sorted(outs.items()):
        env.rec("final-t", i, "done" if f.done() else "pending")


def check_timeouts(spec, env):
    sim = env.sim
    log = sim.log
    out = []
    slack = SLACK + sim.clock_reads * sim.tick_ns / 1e9
    created = {e[4]: e[1] for e in log if e[3] == "created"}
    done = {}
    for e in log:
        if e[3] == "out-done" and e[4] not in done:
            done[e[4]] = e[1]
    for i, it in enumerate(spec["items"]):
        if i not in created:
            continue
        limit = created[i] / 1e9 + it["timeout"] + slack
        if it["timeout"] >= spec["settle"]:
            continue
        t = done.get(i)
        if t is None or t / 1e9 > limit:
            others = sorted(x["timeout"] for j, x in enumerate(spec["items"]) if j != i)
            out.append({"oracle": "late-completion", "sig": "timeout-late|%s|%s" % (spec["via"], "never" if t is None else "late"),
                        "msg": "item %d (%s, timeout %.2fs, created t=%.3fs) %s; nothing else can finish it, its timeout implies t<=%.3fs; other timeouts in the same executor: %r"
                               % (i, spec["via"], it["timeout"], created[i] / 1e9, "was still pending at the end" if t is None else "finished at t=%.3fs" % (t / 1e9), limit, others)})
    return out


def gen(rng, tier):
    r = rng.random()
    mode = "A" if r < 0.4 else ("B" if r < 0.75 else ("C" if r < 0.92 else "T"))
    if mode == "T":
        return gen_timeouts(rng)
    if mode == "C":
        return gen_comb(rng)
    depth = rng.choice([1, 1, 2, 2, 3, 4])
    base = {"kind": rng.choice(["sync", "pool", "pool", "spy"]), "n": rng.choice([1, 2])}
    nsubs = rng.choice([1, 2, 3, 4]) if mode == "A" else rng.choice([2, 3, 4, 6])
    layers = gen_layers(rng, depth, nsubs=nsubs, faults=True, fast=True)
    for L in layers:
        if L["t"] == "poll" and rng.random() < 0.3:
            # a raising poll call fails what it was shown; every other future must still finish
            L["raise_at"] = sorted(set(rng.choice([1, 2, 3, 4]) for _ in range(rng.choice([1, 2]))))
        if L["t"] == "retry" and rng.random() < 0.35:
            # a user-written policy, possibly one that raises: "the retry policy declined" includes
            # a policy that could not be evaluated
            L["policy"] = {"kind": "custom", "max": rng.choice([2, 3, 4]), "on": "exc", "sleep": rng.choice([0, 0.05])}
            k = rng.random()
            if k < 0.3:
                L["policy"]["raise_should"] = rng.choice([1, 2])
            elif k < 0.6:
                L["policy"]["raise_sleep"] = rng.choice([1, 2])
            elif k < 0.75:
                L["policy"]["inherit_sleep"] = True
                L["policy"]["sleep"] = 0
    subs = {}
    for s in range(nsubs):
        nfail = rng.choice([0, 0, 1, 2])
        subs[str(s)] = {"script": [rng.choice(["ErrA", "ErrB"]) for _ in range(nfail)] + ["ok"],
                        "dur": rng.choice([0, 0.05, 0.1, 0.2])}
    if nsubs >= 2 and rng.random() < 0.2:
        # re-entrant cancel: a callable cancels an earlier submission of the same executor (with a
        # sync base this runs on the library's own hand-over thread, inside its critical section)
        k = rng.randrange(1, nsubs)
        subs[str(k)]["cancel_sibling"] = rng.randrange(k)
        if rng.random() < 0.6:
            base["kind"] = "sync"
    spec = {"mode": mode, "base": base, "layers": layers, "subs": subs,
            "aux": any(L["t"] == "flat_map" and "aux" in json.dumps(L.get("fn")) for L in layers)}
    if mode == "A":
        for L in layers:
            if L["t"] == "throttle" and base["kind"] == "sync":
                L["block"] = False
        spec["clients"] = [[op for s in range(nsubs) for op in (["submit", s], ["result", s, 5000.0])]]
        spec["sim"] = runner.draw_sim_cfg(rng, est=600)
    else:
        for L in layers:
            if L["t"] == "throttle":
                L["block"] = False
        ext = rng.random() < 0.6
        if ext and rng.random() < 0.6:
            # an inner timeout layer that fires: cancels the delegate behind the outer layers' back
            pos = rng.randrange(len(layers) + 1)
            layers.insert(pos, {"t": "timeout", "timeout": rng.choice([0.05, 0.1, 0.15])})
            for s in subs.values():
                if rng.random() < 0.5:
                    s["dur"] = rng.choice([0.2, 0.3])
        nclients = rng.choice([1, 2, 3])
        clients = [[] for _ in range(nclients)]
        for s in range(nsubs):
            c = rng.randrange(nclients)
            clients[c].append(["submit", s])
            if rng.random() < 0.25:
                clients[rng.randrange(nclients)].append(["cancel", s])
            if rng.random() < 0.3:
                clients[c].append(["result", s, 5000.0])
        if ext and base["kind"] == "spy":
            clients[rng.randrange(nclients)].append(["reap"])
        spec["clients"] = [c for c in clients if c] or [[["submit", 0]]]
        spec["sim"] = runner.draw_sim_cfg(rng, est=800, stall_ok=True)
    bound = 0.0
    for s in subs:
        (_, _, work, slp) = model.eval_sub(spec, int(s))
        bound += work + slp
    spec["settle"] = round(bound + (5.0 if mode == "A" else 100.0), 3)
    spec["sim"]["horizon_s"] = spec["settle"] * 3 + 20000
    return spec


COMBS = ["zip", "and", "or", "sequence", "map", "flat_map", "nocancel", "timeout", "proxy", "apply", "traverse"]


def gen_comb(rng):
    n = rng.choice([1, 2, 2, 3, 4])
    inputs = []
    for i in range(n):
        inputs.append({"end": rng.choice(["val", "val", "val", "falsy", "exc", "cancel"]),
                       "at": rng.choice([0, 0, 0.05, 0.1, 0.2]), "by": rng.randrange(2),
                       "lib": rng.random() < 0.3})
    comb = rng.choice(COMBS)
    spec = {"mode": "C", "comb": comb, "inputs": inputs, "dup": rng.random() < 0.15 and n >= 2,
            "out_cancel": rng.choice([None, None, None, 0, 0.05, 0.15]),
            "waiter": rng.choice(["result", "wait", "as_completed", "exception"]),
            "settle": 20.0}
    spec["sim"] = runner.draw_sim_cfg(rng, est=300, stall_ok=True)
    spec["sim"]["horizon_s"] = 20000
    return spec


# ---------------------------------------------------------------------------------------
def run(spec, env):
    if spec["mode"] == "T":
        return run_timeouts(spec, env)
    if spec["mode"] == "C":
        return run_comb(spec, env)
    sr = StackRun(spec, env)
    env.objs["sr"] = sr
    sr.build()
    tap_submits(env, sr.chain)
    orig_submit = sr.submit

    def submit(s):
        f = orig_submit(s)
        if f is not None:
            f.add_done_callback(lambda fut, s=s: env.rec("fut-done", s))
        return f
    sr.submit = submit
    sr.run_clients()
    env.sleep(spec["settle"])
    sr.finals()
    env.objs["spy_pending"] = [f.label for sp in env.objs.get("spies", []) for f in sp.submitted if not f.done()]


def build_comb(spec, env, ins):
    from more_executors import futures as F
    comb = spec["comb"]
    fs = list(ins)
    if spec.get("dup") and len(fs) >= 2:
        fs[1] = fs[0]
    if comb == "zip":
        return F.f_zip(*fs)
    if comb == "and":
        return F.f_and(*fs)
    if comb == "or":
        return F.f_or(*fs)
    if comb == "sequence":
        return F.f_sequence(fs)
    if comb == "traverse":
        return F.f_traverse(lambda f: f, fs)
    if comb == "map":
        return F.f_map(fs[0], lambda x: ("m", x))
    if comb == "flat_map":
        other = fs[1] if len(fs) > 1 else F.f_return("k")
        return F.f_flat_map(fs[0], lambda x: other)
    if comb == "nocancel":
        return F.f_nocancel(fs[0])
    if comb == "timeout":
        return F.f_timeout(fs[0], 5000.0)
    if comb == "proxy":
        return F.f_proxy(fs[0])
    if comb == "apply":
        return F.f_apply(F.f_return(lambda *a: ("app",) + a), *fs)
    raise ValueError(comb)


def run_comb(spec, env):
    from concurrent.futures import Future, wait, as_completed, CancelledError, TimeoutError as FT
    from more_executors._impl.map import MapFuture
    sim = env.sim
    ins = []
    for i, inp in enumerate(spec["inputs"]):
        f = SpyFuture(env, "in%d" % i)
        if inp.get("lib"):
            f = MapFuture(f)   # a library future as input
        ins.append(f)
    raw = [getattr(f, "_delegate", None) or f for f in ins]
    out = build_comb(spec, env, ins)
    env.objs["out"] = out
    env.objs["ins"] = ins

    def completer(k):
        def body():
            mine = sorted((inp["at"], i) for i, inp in enumerate(spec["inputs"]) if inp["by"] == k)
            t = 0.0
            for (at, i) in mine:
                if at > t:
                    env.sleep(at - t)
                    t = at
                inp = spec["inputs"][i]
                f = raw[i]
                env.rec("complete", i, inp["end"])
                try:
                    if inp["end"] == "cancel":
                        if f.cancel():
                            f.set_running_or_notify_cancel()
                    elif not f.set_running_or_notify_cancel():
                        pass
                    elif inp["end"] == "exc":
                        f.set_exception(env.exc(("in", i)))
                    elif inp["end"] == "falsy":
                        f.set_result(0)
                    else:
                        f.set_result(("in", i))
                except Exception as e:  # lost race with a cancel reaching the input: fine
                    env.rec("complete-raised", i, type(e).__name__)
                env.rec("complete-ret", i)
        return body

    def waiter():
        w = spec["waiter"]
        i = env.rec("wait", w)
        try:
            if w == "result":
                out.result(2000.0)
            elif w == "exception":
                out.exception(2000.0)
            elif w == "wait":
                (d, nd) = wait([out], timeout=2000.0)
                if not d:
                    raise FT()
            else:
                for _ in as_completed([out], timeout=2000.0):
                    pass
            env.rec("wait-ret", w, "released", i)
        except CancelledError:
            env.rec("wait-ret", w, "released", i)
        except FT:
            env.rec("wait-ret", w, "timeout", i)
        except Exception:
            env.rec("wait-ret", w, "released", i)

    env.client(waiter, "client-w")
    for k in range(2):
        env.client(completer(k), "client-c%d" % k)
    if spec.get("out_cancel") is not None:
        def canceller():
            env.sleep(spec["out_cancel"])
            env.rec("out-cancel", out.cancel())
        env.client(canceller, "client-x")
    env.join_all()
    env.sleep(spec["settle"])
    env.rec("final-out", state_desc(fut_state(out)) if not isinstance(fut_state(out)[-1], Future) else ["val", "<future>"])
    env.objs["in_done"] = [f.done() for f in raw]


# ---------------------------------------------------------------------------------------
def check(spec, env):
    sim = env.sim
    if abnormal(sim):
        return []
    if spec["mode"] == "T":
        return check_timeouts(spec, env)
    if spec["mode"] == "C":
        return check_comb(spec, env)
    out = []
    finals = env.objs.get("finals", {})
    types = "+".join(L["t"] for L in spec["layers"])
    ext = any(e[3] in ("spy-reaped",) for e in sim.log) or any(L["t"] == "timeout" and L["timeout"] < 100 for L in spec["layers"])
    # (1) nothing pending once all underlying work is terminal
    if not env.objs.get("spy_pending"):
        for s, st in finals.items():
            if st[0] == "pending":
                sr = env.objs["sr"]
                out.append({"oracle": "lost-future",
                            "sig": "lost|%s|%s" % (type(sr.futs[s]).__name__, "after-external-cancel" if ext else "no-external-cancel"),
                            "msg": "submission %d: %s still pending %.0f virtual s after all underlying work finished "
                                   "(layers %s over %s; external cancellation injected: %s)"
                                   % (s, type(sr.futs[s]).__name__, spec["settle"], types, spec["base"]["kind"], ext)})
    # (1b) a hand-over thread woken only by its fallback timer (2 s / 30 s) must find nothing it
    #      could already have done: if the first thing it does after such a wake-up is to hand a
    #      queued job to its delegate, progress hinged on the timer (static counts, stall-free)
    thr = [i for i, L in enumerate(spec["layers"]) if L["t"] == "throttle"]
    if len(thr) == 1 and not spec["sim"].get("stall_p") and isinstance(spec["layers"][thr[0]].get("count"), int):
        lvl = thr[0]
        log = sim.log
        tids = [t.tid for t in sim.threads if t.name.startswith("ThrottleExecutor")]
        if len(tids) == 1:
            tid = tids[0]
            for k, e in enumerate(log):
                if e[3] != "clock-jump":
                    continue
                # the jump must have woken the hand-over thread's timer and nothing else (anything
                # else waking at the same instant - a callable finishing, a poll resolving a future
                # whose owner then submits - may legitimately create the work it then hands over)
                if len(e[5]) != 1 or not (e[5][0][0].startswith("ThrottleExecutor") and e[5][0][1] == "SimEvent"):
                    continue
                nxt = [x for x in log[k + 1:k + 400] if x[2] == tid]
                queued_before = nxt and any(x[3] == "dsubmit-ret" and x[4] == lvl + 1 and x[5] == nxt[0][5] and x[0] < e[0] for x in log[:k])
                if nxt and nxt[0][3] == "dsubmit" and nxt[0][4] == lvl and queued_before:
                    out.append({"oracle": "fallback-timer", "sig": "progress-hinged-on-fallback-timer|throttle",
                                "msg": "at t=%.3fs the throttle hand-over thread was woken only by its fallback timer (clock jump of %.3fs) and then "
                                       "handed submission %r to its delegate: the job had been ready all along; layers %s"
                                       % (e[1] / 1e9, e[4] / 1e9, nxt[0][5], types)})
                    break
    # (2) family A: completion no later than the configured delays imply
    # (a poll call that raised fails a schedule-dependent set of futures, which layers above may
    #  retry: the time bound of the reference model does not apply to such runs; "lost" still does)
    poll_raised = any(e[3] == "ufn" and e[4] == "poll-raise" for e in sim.log)
    if spec["mode"] == "A" and not spec["sim"].get("stall_p") and not poll_raised:
        slack = SLACK + sim.clock_reads * sim.tick_ns / 1e9
        t_sub, t_done = {}, {}
        for e in sim.log:
            if e[3] == "op" and e[4] == "submit":
                t_sub[e[5]] = e[1]
            elif e[3] == "fut-done" and e[4] not in t_done:
                t_done[e[4]] = e[1]
        for s in t_sub:
            if s not in t_done:
                continue
            (o, _, work, slp) = model.eval_sub(spec, s)
            if o.kind == "unknown":
                continue   # the model does not predict this path (see harness/model.py)
            took = (t_done[s] - t_sub[s]) / 1e9
            if took > work + slp + slack:
                jumps = [e for e in sim.log if e[3] == "clock-jump" and t_sub[s] <= e[1] <= t_done[s]]
                timers = sorted(set("%s:%s" % (w[0].rstrip("0123456789-_"), (w[2] or "").split("<")[-1].split(":")[0]) for j in jumps for w in j[5]))
                out.append({"oracle": "late-completion", "sig": "late|%s|%s" % ("+".join(sorted(set(L["t"] for L in spec["layers"]))), ",".join(timers)[:120]),
                            "msg": "submission %d completed %.3fs after submit; configured durations, retry delays and poll "
                                   "intervals imply at most %.3fs (+%.3fs slack); layers %s; timers that fired meanwhile: %s"
                                   % (s, took, work + slp, slack, types, timers)})
    return out


def check_comb(spec, env):
    sim = env.sim
    out = []
    fin = [e for e in sim.log if e[3] == "final-out"]
    if not fin:
        return out
    st = fin[0][4]
    in_done = env.objs.get("in_done", [])
    if st[0] == "pending" and all(in_done):
        ends = "+".join(sorted(set(i["end"] for i in spec["inputs"])))
        out.append({"oracle": "lost-future", "sig": "lost-combinator|%s|%s" % (spec["comb"], ends),
                    "msg": "f_%s output still pending although every input finished (%r); out_cancel=%r"
                           % (spec["comb"], [i["end"] for i in spec["inputs"]], spec.get("out_cancel"))})
    return out


def probes(spec, env):
    sim = env.sim
    pr = {"mode:" + spec["mode"]: 1, "abnormal-runs": 1 if abnormal(sim) else 0}
    trig = False
    if spec["mode"] == "T":
        pr["mixed-timeouts-in-one-executor"] = 1 if len(set(it["timeout"] for it in spec["items"])) > 1 else 0
        pr["clock-jumps-to-library-timers"] = sum(1 for e in sim.log if e[3] == "clock-jump" and any(not w[0].startswith("client") for w in e[5]))
        pr["_nontrivial"] = sim.preemptions > 0 and pr["mixed-timeouts-in-one-executor"] > 0
        return pr
    if spec["mode"] == "C":
        pr["comb:" + spec["comb"]] = 1
        pr["fault:input-cancelled-externally"] = sum(1 for e in sim.log if e[3] == "complete" and e[5] == "cancel")
        pr["fault:output-cancelled"] = sum(1 for e in sim.log if e[3] == "out-cancel")
        trig = len(spec["inputs"]) >= 2 or pr["fault:input-cancelled-externally"] > 0
    else:
        pr["fault:delegate-reaped"] = sum(1 for e in sim.log if e[3] == "spy-reaped")
        pr["fault:inner-timeout-layer"] = 1 if any(L["t"] == "timeout" and L["timeout"] < 100 for L in spec["layers"]) else 0
        pr["retries"] = sum(1 for e in sim.log if e[3] == "call" and e[5] > 1)
        pr["polls"] = sum(1 for e in sim.log if e[3] == "ufn" and e[4] == "poll")
        pr["op:cancel"] = sum(1 for e in sim.log if e[3] == "op" and e[4] == "cancel")
        pr["clock-jumps-to-library-timers"] = sum(1 for e in sim.log if e[3] == "clock-jump" and any(not w[0].startswith("client") for w in e[5]))
        trig = bool(pr["retries"] or pr["polls"] or pr["fault:delegate-reaped"] or pr["fault:inner-timeout-layer"])
    pr["_nontrivial"] = sim.preemptions > 0 and trig
    return pr


def shrink(spec):
    def cp():
        return json.loads(json.dumps(spec))
    if spec["mode"] == "T":
        for i in range(len(spec["items"])):
            if len(spec["items"]) > 1:
                s = cp()
                del s["items"][i]
                yield s
        return
    if spec["mode"] == "C":
        for i in range(len(spec["inputs"])):
            if len(spec["inputs"]) > 1:
                s = cp()
                del s["inputs"][i]
                yield s
        if spec.get("out_cancel") is not None:
            s = cp()
            s["out_cancel"] = None
            yield s
        if spec.get("dup"):
            s = cp()
            s["dup"] = False
            yield s
        for i, inp in enumerate(spec["inputs"]):
            if inp.get("lib"):
                s = cp()
                s["inputs"][i]["lib"] = False
                yield s
            if inp["at"]:
                s = cp()
                s["inputs"][i]["at"] = 0
                yield s
        return
    for i in range(len(spec["layers"])):
        s = cp()
        del s["layers"][i]
        yield s
    for c in range(len(spec["clients"])):
        if len(spec["clients"]) > 1:
            s = cp()
            del s["clients"][c]
            yield s
    for c in range(len(spec["clients"])):
        for o in range(len(spec["clients"][c])):
            s = cp()
            del s["clients"][c][o]
            if s["clients"][c]:
                yield s
    for k, sub in spec["subs"].items():
        if len(sub["script"]) > 1:
            s = cp()
            s["subs"][k]["script"] = sub["script"][1:]
            yield s
        if sub.get("dur"):
            s = cp()
            s["subs"][k]["dur"] = 0
            yield s
