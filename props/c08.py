"""C08 - poll: one poll at a time, exact descriptor set, first yield wins, prompt polls, cancel veto."""
import json
from concurrent.futures import CancelledError

from harness import runner
from harness.env import SpyExecutor, desc, sub_of
from harness.oracles import abnormal
from harness.stackrun import fut_state, state_desc

PROP = "C08"
PLAN = {"quick": {"runs": 12000, "wall_s": 90}, "thorough": {"runs": 300000, "wall_s": 1200}}
RULE = ("Each run: a PollExecutor over a scripted 4-worker delegate, 1-5 polled futures whose delegates succeed or fail at "
        "scripted virtual times; the poll function is scripted per call (yield result / exception / twice / never after k "
        "sightings, raise at call k, return an interval, take virtual time), the cancel function returns True / False / "
        "raises; client threads cancel() and notify() at drawn times or inside windows (semantic triggers). Oracles by "
        "interval reasoning over the global event sequence. Non-trivial = a pre-emption and a cancel / notify / completion "
        "that overlapped a poll call.")
ASSUMPTIONS = ["the snapshot -> call window is inherent in the documented design: membership is judged against the interval "
               "[end of previous call, entry of this call]",
               "promptness is judged in stall-free runs only"]
SLACK = 0.005


def family(sig):
    return sig.rsplit("|", 1)[0]


def gen_cancel_during_poll(rng):
    """Focus family: two to four futures in the polling stage together, a cancel function, and
    cancel() calls on the later ones placed while a poll call is resolving the earlier ones
    (the registry is being edited while the cancel looks its future up)."""
    nsubs = rng.choice([2, 3, 4])
    subs = {}
    for s in range(nsubs):
        subs[str(s)] = {"dur": 0, "out": "ok", "at": rng.choice([1, 1, 2]) if s < nsubs - 1 else rng.choice([2, 3]),
                        "yield": "res", "submit_at": 0}
    pf = {"raise_at": [], "ret": None, "dur": 0, "interval": rng.choice([0.5, 1.0]),
          "cancel_fn": rng.choice(["true", "false", "false", "raise"])}
    clients = []
    for c in range(rng.choice([1, 2])):
        clients.append([["await", rng.choice(["poll-yield", "poll-yield", "poll-enter"])], ["cancel", rng.randrange(1, nsubs)]])
    spec = {"subs": subs, "pf": pf, "clients": clients, "settle": 30.0, "focus": "cancel-during-poll"}
    spec["sim"] = runner.draw_sim_cfg(rng, est=500)
    runner.prefer_place(spec["sim"], 0.4)
    spec["sim"]["horizon_s"] = 20000
    return spec


def gen(rng, tier):
    if rng.random() < 0.15:
        return gen_cancel_during_poll(rng)
    nsubs = rng.choice([1, 2, 3, 4, 5])
    subs = {}
    for s in range(nsubs):
        subs[str(s)] = {"dur": rng.choice([0, 0.05, 0.1, 0.3]), "out": rng.choice(["ok", "ok", "ok", "exc"]),
                        "at": rng.choice([1, 1, 2, 3]), "yield": rng.choice(["res", "res", "exc", "twice", "never"]),
                        "submit_at": rng.choice([0, 0, 0.05, 0.2])}
    pf = {"raise_at": sorted(set(rng.choice([1, 2, 3, 4, 6]) for _ in range(rng.choice([0, 0, 1, 2])))),
          "ret": rng.choice([None, None, 0.2, 1.0]), "dur": rng.choice([0, 0, 0.05]), "interval": rng.choice([0.5, 1.0, 5.0]),
          "cancel_fn": rng.choice([None, "true", "false", "raise"]),
          # the poll function may treat its argument as a work list and empty it (pop / clear):
          # the list is the caller's to consume, the next call must get a fresh, complete one
          "consume": rng.random() < 0.15}
    nclients = rng.choice([1, 2])
    clients = []
    for c in range(nclients):
        ops = []
        for _ in range(rng.choice([1, 2, 3])):
            r = rng.random()
            if r < 0.4:
                ops.append(["await", rng.choice(["poll-enter", "poll-yield", "poll-exit", "delegate-done"])])
            elif r < 0.8:
                ops.append(["sleep", rng.choice([0.05, 0.1, 0.2, 0.4, 0.7])])
            ops.append(rng.choice([["cancel", rng.randrange(nsubs)], ["cancel", rng.randrange(nsubs)], ["notify"]]))
        clients.append(ops)
    spec = {"subs": subs, "pf": pf, "clients": clients, "settle": 30.0,
            "falsy_exc": rng.random() < 0.15}     # delegates that fail do so with an exception object that is falsy
    spec["sim"] = runner.draw_sim_cfg(rng, est=500, stall_ok=True)
    if any(op[0] == "await" for ops in clients for op in ops):
        runner.prefer_place(spec["sim"], 0.3)
    spec["sim"]["horizon_s"] = 20000
    return spec


def run(spec, env):
    from more_executors import Executors
    sim = env.sim
    spy = SpyExecutor(env, n=4)
    pf = spec["pf"]
    seen = {}
    ncall = [0]

    def poll_fn(descriptors):
        ncall[0] += 1
        n = ncall[0]
        env.rec("poll", n, [desc(d.result) for d in descriptors])
        env.hit("poll-enter")
        sim.yield_point("user-poll")
        if pf["dur"]:
            sim.sleep(pf["dur"])
        try:
            if n in pf["raise_at"]:
                e = env.exc(("pollfn", n))
                env.rec("poll-raise", n)
                raise e
            todo = list(descriptors)
            if pf.get("consume"):
                del descriptors[:]
            for d in todo:
                v = d.result
                s = sub_of(v)
                sub = spec["subs"][str(s)]
                seen[s] = seen.get(s, 0) + 1
                if seen[s] >= sub["at"] and sub["yield"] != "never":
                    env.hit("poll-yield")
                    sim.yield_point("user-poll")
                    kinds = {"res": ["res"], "exc": ["exc"], "twice": ["res", "exc"]}[sub["yield"]]
                    for j, k in enumerate(kinds):
                        i = env.rec("yield", s, k, j, n)
                        if k == "res":
                            d.yield_result(("p", v, j))
                        else:
                            d.yield_exception(env.exc(("y", s, j, n)))
                        env.rec("yield-ret", s, i)
            return pf["ret"]
        finally:
            env.rec("poll-end", n)
            env.hit("poll-exit")

    def cancel_fn(r):
        env.rec("cancelfn", desc(r), pf["cancel_fn"])
        sim.yield_point("user-cancelfn")
        if pf["cancel_fn"] == "raise":
            raise env.exc(("cancelfn",))
        return pf["cancel_fn"] == "true"

    ex = Executors.with_poll(spy, poll_fn, cancel_fn=cancel_fn if pf["cancel_fn"] else None,
                             default_interval=pf["interval"])
    futs = {}

    def make_fn(s, sub):
        def fn():
            env.rec("call", s)
            if sub["dur"]:
                sim.sleep(sub["dur"])
            env.hit("delegate-done")
            if sub["out"] == "exc":
                raise env.exc(("d", s), "FalsyErr" if spec.get("falsy_exc") else "ErrA")
            return ("v", s, 1)
        fn.tag = s
        return fn

    def submitter():
        t = 0.0
        for s in sorted(spec["subs"], key=lambda k: (spec["subs"][k]["submit_at"], int(k))):
            sub = spec["subs"][s]
            if sub["submit_at"] > t:
                env.sleep(sub["submit_at"] - t)
                t = sub["submit_at"]
            futs[int(s)] = ex.submit(make_fn(int(s), sub))
            env.rec("submitted", int(s))

    def client_body(ops):
        def body():
            for op in ops:
                if op[0] == "sleep":
                    env.sleep(op[1])
                elif op[0] == "await":
                    env.await_(op[1], 2.0)
                elif op[0] == "notify":
                    i = env.rec("op", "notify")
                    ex.notify()
                    env.rec("op-ret", "notify", None, None, None, i)
                elif op[0] == "cancel":
                    f = futs.get(op[1])
                    if f is None:
                        continue
                    i = env.rec("op", "cancel", op[1])
                    try:
                        r = f.cancel()
                    except Exception as e:
                        env.rec("op-ret", "cancel", op[1], "raised", type(e).__name__, i)
                    else:
                        env.rec("op-ret", "cancel", op[1], r, None, i)
        return body

    env.client(submitter, "client-s")
    for ops in spec["clients"]:
        env.client(client_body(ops))
    env.join_all()
    env.sleep(spec["settle"])
    fin = {}
    for s, f in sorted(futs.items()):
        fin[s] = fut_state(f)
        env.rec("final", s, state_desc(fin[s]))
    env.objs["finals"] = fin
    env.objs["labels"] = {f.fn.tag: f.label for f in spy.submitted}


def check(spec, env):
    sim = env.sim
    if abnormal(sim):
        return []
    log = sim.log
    out = []
    finals = env.objs.get("finals", {})
    labels = env.objs.get("labels", {})
    lab2sub = {v: k for k, v in labels.items()}
    # index events
    polls = [e for e in log if e[3] == "poll"]
    pends = {e[4]: e for e in log if e[3] == "poll-end"}
    # (1) never concurrently with itself
    depth = 0
    for e in log:
        if e[3] == "poll":
            depth += 1
            if depth > 1:
                out.append({"oracle": "concurrent-poll", "sig": "poll-fn-overlap",
                            "msg": "poll function entered (call %d, event %d) while the previous call had not returned" % (e[4], e[0])})
                break
        elif e[3] == "poll-end":
            depth -= 1
    d_begin, d_fin, d_ok = {}, {}, {}
    for e in log:
        if e[3] == "spy-done":
            s = lab2sub.get(e[4])
            d_begin[s] = e[0]
            d_ok[s] = (e[5] == "ok")
        elif e[3] == "spy-fin":
            d_fin[lab2sub.get(e[4])] = e[0]
    yields = {}     # sub -> list of (begin seq, ret seq, kind, call)
    yret = {e[5]: e[0] for e in log if e[3] == "yield-ret"}
    for e in log:
        if e[3] == "yield":
            yields.setdefault(e[4], []).append((e[0], yret.get(e[0], 1 << 60), e[5], e[7], e[6]))
    cancels = {}    # sub -> list of (begin, ret, result)
    cret = {e[8]: e for e in log if e[3] == "op-ret" and e[4] == "cancel"}
    for e in log:
        if e[3] == "op" and e[4] == "cancel":
            r = cret.get(e[0])
            cancels.setdefault(e[5], []).append((e[0], r[0] if r else 1 << 60, r[6] if r else None))
    raises = {e[4]: e[0] for e in log if e[3] == "poll-raise"}
    submitted = {e[4]: e[0] for e in log if e[3] == "submitted"}
    shown_in = {}   # call -> set of subs shown
    prev_end = 0
    for p in polls:
        n = p[4]
        begin = p[0]
        shown = [sub_of(_t(v)) for v in p[5]]
        shown_in[n] = set(shown)
        # (2) descriptor set
        if len(set(shown)) != len(shown):
            out.append({"oracle": "descriptors", "sig": "descriptor-duplicated",
                        "msg": "poll call %d received duplicate descriptors: %r" % (n, shown)})
        for v, s in zip(p[5], shown):
            if _t(v) != ("v", s, 1):
                out.append({"oracle": "descriptors", "sig": "descriptor-wrong-result",
                            "msg": "poll call %d: descriptor for submission %r carries %r, its delegate returned %r" % (n, s, v, ("v", s, 1))})
        resolved_begin = {}   # [begin, return] of the call that actually resolved each future
        resolved_ret = {}
        for s in spec["subs"]:
            s = int(s)
            st = finals.get(s, ("pending",))
            rb = rr = 1 << 60
            if st[0] == "cancelled":
                # a yield that lost the race against this cancel() resolved nothing
                tc = [c for c in cancels.get(s, []) if c[2] is True]
                if tc:
                    # which of several overlapping cancel() calls that returned True did the resolving
                    # is not observable: any call that began before the first of them returned may be
                    # it (the others merely saw the cancelled state), so the resolving call "has
                    # returned" for sure only once all of those have
                    first_ret = min(c[1] for c in tc)
                    cands_ = [c for c in tc if c[0] < first_ret]
                    rb, rr = min(c[0] for c in cands_), max(c[1] for c in cands_)
            elif st[0] == "exc" and getattr(st[1], "tag", (None,))[0] == "pollfn":
                cn = st[1].tag[1]
                rb, rr = raises.get(cn, 1 << 60), (pends[cn][0] if cn in pends else 1 << 60)
            elif st[0] in ("val", "exc"):
                ys = yields.get(s, [])
                if ys:
                    rb, rr = ys[0][0], ys[0][1]
            resolved_begin[s] = rb
            resolved_ret[s] = rr
        for s in spec["subs"]:
            s = int(s)
            if not d_ok.get(s):
                if s in shown:
                    if s not in d_begin or d_begin[s] > begin:
                        out.append({"oracle": "descriptors", "sig": "descriptor-before-delegate-done",
                                    "msg": "poll call %d was shown submission %d whose delegate had not finished successfully" % (n, s)})
                continue
            # registered for sure: delegate completion (with its callbacks) returned AND submit()
            # had returned the PollFuture, both before the previous call ended
            must = d_fin.get(s, 1 << 60) < prev_end and submitted.get(s, 1 << 60) < prev_end and resolved_begin[s] > begin
            may = d_begin[s] < begin and resolved_ret[s] > prev_end
            if must and s not in shown:
                out.append({"oracle": "descriptors", "sig": "descriptor-missing",
                            "msg": "poll call %d (entered at event %d, previous call ended at event %d) was not shown submission %d, whose delegate "
                                   "completion had returned at event %d and which was unresolved until event %d"
                                   % (n, begin, prev_end, s, d_fin[s], resolved_begin[s])})
            if s in shown and not may:
                out.append({"oracle": "descriptors", "sig": "descriptor-stale",
                            "msg": "poll call %d (entered at event %d, previous call ended at event %d) was shown submission %d, whose resolving call "
                                   "had already returned at event %d" % (n, begin, prev_end, s, resolved_ret[s])})
        prev_end = pends[n][0] if n in pends else 1 << 60
    # (3)/(4) outcome = first yield; a raising call fails exactly what it was shown
    for s, st in finals.items():
        if st[0] == "cancelled" or any(c[2] is True for c in cancels.get(s, [])):
            continue
        if not d_ok.get(s):
            continue
        evs = [(y[0], "yield", y) for y in yields.get(s, [])]
        for (cn, rseq) in raises.items():
            if s in shown_in.get(cn, ()):
                evs.append((rseq, "raise", cn))
        evs.sort()
        if not evs:
            if st[0] != "pending":
                out.append({"oracle": "outcome", "sig": "resolved-without-yield|%s" % st[0],
                            "msg": "submission %d ended %r although the poll function never yielded for it" % (s, state_desc(st))})
            continue
        (_, what, info) = evs[0]
        if what == "yield":
            (_, _, kind, call, j) = info
            if kind == "res":
                ok = st[0] == "val" and _t(st[1]) == ("p", ("v", s, 1), j)
            else:
                ok = st[0] == "exc" and st[1] is env.excs.get(repr(("y", s, j, call)))
            if not ok:
                out.append({"oracle": "outcome", "sig": "not-first-yield|%s" % kind,
                            "msg": "submission %d: first yield was %s #%d in poll call %d but the future ended %r" % (s, kind, j, call, state_desc(st))})
        else:
            if not (st[0] == "exc" and st[1] is env.excs.get(repr(("pollfn", info)))):
                out.append({"oracle": "outcome", "sig": "raising-poll-not-propagated",
                            "msg": "submission %d was shown to poll call %d, which raised before any yield for it, but the future ended %r" % (s, info, state_desc(st))})
    for s, st in finals.items():
        if st[0] == "exc" and getattr(st[1], "tag", (None,))[0] == "pollfn":
            cn = st[1].tag[1]
            if s not in shown_in.get(cn, ()):
                out.append({"oracle": "outcome", "sig": "raising-poll-failed-unshown",
                            "msg": "submission %d failed with the exception of poll call %d, which was never shown it" % (s, cn)})
    # (5) promptness
    if not spec["sim"].get("stall_p"):
        slack = int((SLACK + sim.clock_reads * sim.tick_ns / 1e9) * 1e9)
        triggers = []   # (seq after which a poll must begin, time by which, description, sub or None)
        for e in log:
            if e[3] == "spy-fin" and d_ok.get(lab2sub.get(e[4])):
                s_ = lab2sub.get(e[4])
                # registration happens inside the completion [spy-done, spy-fin] - or when
                # submit() constructs the PollFuture, if the delegate finished first
                a = d_begin[s_]
                if submitted.get(s_, 1 << 60) > e[0]:
                    continue   # future not handed out yet when the delegate finished: covered by oracle 2
                triggers.append((a, e[1], "delegate completion of submission %r" % s_, s_))
            elif e[3] == "op" and e[4] == "notify":
                r = [x for x in log if x[3] == "op-ret" and x[4] == "notify" and x[-1] == e[0]]
                if r:
                    triggers.append((e[0], r[0][1], "notify()", None))
        for (tseq, tt, what, s_) in triggers:
            if s_ is not None:
                # the poll that matters is the first one that shows the newly eligible future
                nxt = [p for p in polls if p[0] > tseq and s_ in [sub_of(_t(v)) for v in p[5]]]
                if not nxt and (any(c[2] is True for c in cancels.get(s_, []))):
                    continue
            else:
                nxt = [p for p in polls if p[0] > tseq]
            inprog_end = tt
            for p in polls:
                if p[0] < tseq and (p[4] not in pends or pends[p[4]][0] > tseq):
                    inprog_end = max(inprog_end, pends[p[4]][1] if p[4] in pends else 1 << 62)
            # a call that began after the trigger but before the registration was complete may
            # legitimately miss the future; the poll after it must follow at once
            for p in polls:
                if tseq < p[0] and (not nxt or p[0] < nxt[0][0]) and p[4] in pends:
                    inprog_end = max(inprog_end, pends[p[4]][1])
            if not nxt:
                if log[-1][1] - tt > int(1e9) * 6:
                    out.append({"oracle": "promptness", "sig": "no-poll-after-trigger|%s" % what.split()[0],
                                "msg": "%s at t=%.3fs was never followed by a poll call showing it" % (what, tt / 1e9)})
                    break
                continue
            if nxt[0][1] > inprog_end + slack:
                out.append({"oracle": "promptness", "sig": "poll-waited-for-interval|%s" % what.split()[0],
                            "msg": "%s at t=%.6fs: the next poll call began at t=%.6fs (call in progress ended t=%.6fs, slack %.6fs) - it waited out the interval"
                                   % (what, tt / 1e9, nxt[0][1] / 1e9, inprog_end / 1e9, slack / 1e9)})
                break
    # (6) cancel function
    cfs = [e for e in log if e[3] == "cancelfn"]
    per_sub = {}
    for e in cfs:
        s = sub_of(_t(e[4]))
        per_sub[s] = per_sub.get(s, 0) + 1
        if _t(e[4]) != ("v", s, 1) or not d_ok.get(s) or d_begin.get(s, 1 << 60) > e[0]:
            out.append({"oracle": "cancel-fn", "sig": "cancel-fn-outside-polling-stage",
                        "msg": "cancel function called with %r (event %d) although that submission's delegate had not finished successfully" % (e[4], e[0])})
        owner = [c for c in cancels.get(s, []) if c[0] < e[0] < c[1]]
        if not owner:
            out.append({"oracle": "cancel-fn", "sig": "cancel-fn-outside-cancel",
                        "msg": "cancel function called (event %d) outside any cancel() call on submission %r" % (e[0], s)})
        elif e[5] in ("false", "raise") and owner[0][2] is not False:
            out.append({"oracle": "cancel-fn", "sig": "cancel-veto-ignored|%s" % e[5],
                        "msg": "cancel function %s for submission %r but cancel() returned %r" % ("returned False" if e[5] == "false" else "raised", s, owner[0][2])})
    for s, n in per_sub.items():
        if n > len(cancels.get(s, [])):
            out.append({"oracle": "cancel-fn", "sig": "cancel-fn-too-often",
                        "msg": "cancel function called %d times for submission %r with %d cancel() calls" % (n, s, len(cancels.get(s, [])))})
    # a cancel() that returned True on a future which was in the polling stage from before the call
    # began (its delegate's successful completion, callbacks included, had returned) must have
    # consulted the cancel function
    if spec["pf"]["cancel_fn"]:
        for s, cs in cancels.items():
            trues = sorted(c for c in cs if c[2] is True)
            if trues and d_ok.get(s) and d_fin.get(s, 1 << 60) < trues[0][0] and not per_sub.get(s):
                out.append({"oracle": "cancel-fn", "sig": "cancel-fn-not-consulted|%s" % spec["pf"]["cancel_fn"],
                            "msg": "cancel() on submission %r returned True (events %d..%d) while it was in the polling stage (delegate finished at event %d), "
                                   "but the cancel function was never called for it" % (s, trues[0][0], trues[0][1], d_fin[s])})
    vetoed = spec["pf"]["cancel_fn"] in ("false", "raise")
    if vetoed:
        for s, st in finals.items():
            if st[0] == "cancelled" and per_sub.get(s) and all(c[2] is not True for c in cancels.get(s, [])):
                out.append({"oracle": "cancel-fn", "sig": "cancelled-despite-veto",
                            "msg": "submission %d ended cancelled although every cancel() was vetoed" % s})
    return out


def _t(x):
    if isinstance(x, (list, tuple)):
        return tuple(_t(y) for y in x)
    return x


def probes(spec, env):
    sim = env.sim
    log = sim.log
    polls = [e for e in log if e[3] == "poll"]
    pends = {e[4]: e[0] for e in log if e[3] == "poll-end"}
    overlap = 0
    for e in log:
        if (e[3] == "op" and e[4] in ("cancel", "notify")) or e[3] == "spy-fin":
            for p in polls:
                if p[0] < e[0] < pends.get(p[4], 0):
                    overlap += 1
                    break
    pr = {"poll-calls": len(polls), "fault:poll-fn-raised": sum(1 for e in log if e[3] == "poll-raise"),
          "yields": sum(1 for e in log if e[3] == "yield"),
          "cancel-fn-calls": sum(1 for e in log if e[3] == "cancelfn"),
          "op:cancel": sum(1 for e in log if e[3] == "op" and e[4] == "cancel"),
          "op:notify": sum(1 for e in log if e[3] == "op" and e[4] == "notify"),
          "event-overlapping-a-poll-call": overlap, "abnormal-runs": 1 if abnormal(sim) else 0}
    pr["_nontrivial"] = sim.preemptions > 0 and overlap > 0
    return pr


def shrink(spec):
    def cp():
        return json.loads(json.dumps(spec))
    for c in range(len(spec["clients"])):
        s = cp()
        del s["clients"][c]
        yield s
    for c in range(len(spec["clients"])):
        for o in range(len(spec["clients"][c])):
            s = cp()
            del s["clients"][c][o]
            yield s
    n = len(spec["subs"])
    if n > 1:
        s = cp()
        last = str(n - 1)
        del s["subs"][last]
        s["clients"] = [[op for op in ops if not (op[0] == "cancel" and op[1] == n - 1)] for ops in s["clients"]]
        yield s
    if spec["pf"]["raise_at"]:
        s = cp()
        s["pf"]["raise_at"] = s["pf"]["raise_at"][1:]
        yield s
    for k, v in (("dur", 0), ("ret", None)):
        if spec["pf"][k] != v:
            s = cp()
            s["pf"][k] = v
            yield s
