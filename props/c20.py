"""C20 - metrics: gauges return to reality at quiescence, counters match events."""
import json
import sys

from harness import runner, model
from harness.oracles import abnormal
from harness.stackgen import gen_layers
from harness.stackrun import StackRun, tap_submits

PROP = "C20"
METRICS = True
PLAN = {"quick": {"runs": 10000, "wall_s": 90}, "thorough": {"runs": 250000, "wall_s": 1200}}
RULE = ("Each run (stub prometheus_client recording value and running minimum per label set): a random named stack over sync / "
        "thread pool / scripted delegate and a history mixing normal completion, failure, cancel while queued (throttle, pool), "
        "cancel between retries, cancel in flight, a firing timeout layer and an optional final shutdown (with or without "
        "cancel-on-shutdown). At quiescence every gauge is compared with what is really pending / alive / queued, minima with 0, "
        "and the counters that the history determines with the history. Non-trivial = a pre-emption and at least one cancel, "
        "retry, timeout or failure.")
ASSUMPTIONS = ["all callables are finite, so at quiescence nothing is pending: future_inprogress, retry_queue and throttle_queue must be 0",
               "*_time / retry_delay sums are only required to be >= 0",
               "counters of inner layers are cross-checked only where the history determines them (top-level future type; single retry / poll layer)"]
TYPE_OF = {"retry": "retry", "poll": "poll", "throttle": "throttle", "timeout": "timeout", "map": "map", "flat_map": "flat_map"}


def family(sig):
    return sig.rsplit("|", 1)[0]


def gen_timeout_focus(rng):
    """Directed family: a firing timeout layer over a poll layer whose cancel function is slow for
    some submissions (the timeout thread is busy in virtual time), staggered submissions and
    cancels by the owner before the deadline: who cancelled what must be counted right."""
    nsubs = rng.choice([2, 3, 4])
    poll = {"t": "poll", "interval": rng.choice([0.5, 1.0]), "after": rng.choice([3, 50]), "out": "ok",
            "cancel_fn": rng.choice(["true", "true", "false"]),
            "cancel_dur": {"default": 0, "subs": {str(k): rng.choice([0.2, 0.4, 0.8]) for k in range(nsubs) if rng.random() < 0.5}}}
    layers = [poll, {"t": "timeout", "timeout": rng.choice([0.1, 0.2, 0.3])}]
    if rng.random() < 0.3:
        layers.append({"t": "cos"})
    subs = {str(s): {"script": ["ok"], "dur": rng.choice([0, 0, 0.05])} for s in range(nsubs)}
    ops = []
    for s in range(nsubs):
        if s and rng.random() < 0.7:
            ops.append(["sleep", rng.choice([0.1, 0.2, 0.3])])
        ops.append(["submit", s])
        if rng.random() < 0.5:
            ops.append(["sleep", rng.choice([0.02, 0.05, 0.1])])
            ops.append(["cancel", s])
    spec = {"base": {"kind": rng.choice(["sync", "pool"]), "n": 2, "name": None}, "layers": layers, "subs": subs,
            "clients": [ops], "aux": False, "final_shutdown": None, "settle": 80.0}
    spec["sim"] = runner.draw_sim_cfg(rng, est=700)
    spec["sim"]["horizon_s"] = 5000
    return spec


COMB_TYPE = {"zip": "zip", "and": "and", "or": "or", "sequence": "sequence", "traverse": "traverse", "map": "map",
             "flat_map": "flat_map", "nocancel": "nocancel", "timeout": "timeout", "proxy": "proxy", "apply": "apply"}


def gen_comb(rng):
    """Combinator family: one or two f_* outputs over 1-3 inputs completed by other threads with
    value / exception / falsy exception / cancellation, an optional cancel of the output; the
    metrics of the futures the combinators create are judged at quiescence."""
    n = rng.choice([1, 2, 2, 3])
    inputs = [{"end": rng.choice(["val", "val", "val", "exc", "exc-falsy", "cancel"]), "at": rng.choice([0, 0.05, 0.1]), "by": rng.randrange(2)}
              for _ in range(n)]
    spec = {"mode": "comb", "comb": rng.choice(sorted(COMB_TYPE)), "inputs": inputs, "dup": rng.random() < 0.1 and n >= 2,
            "out_cancel": rng.choice([None, None, None, 0, 0.05, 0.2]), "settle": 10.0, "layers": [], "final_shutdown": None}
    spec["sim"] = runner.draw_sim_cfg(rng, est=300)
    spec["sim"]["horizon_s"] = 5000
    return spec


def run_comb(spec, env):
    from concurrent.futures import Future
    from props.c03 import build_comb
    from harness.env import SpyFuture
    from harness.stackrun import fut_state
    sim = env.sim
    raw = [SpyFuture(env, "in%d" % i) for i in range(len(spec["inputs"]))]
    out = build_comb(spec, env, raw)

    def completer(k):
        def body():
            mine = sorted((inp["at"], i) for i, inp in enumerate(spec["inputs"]) if inp["by"] == k)
            t = 0.0
            for (at, i) in mine:
                if at > t:
                    env.sleep(at - t)
                    t = at
                inp, f = spec["inputs"][i], raw[i]
                env.rec("complete", i, inp["end"])
                try:
                    if inp["end"] == "cancel":
                        if Future.cancel(f):
                            f.set_running_or_notify_cancel()
                    elif not f.set_running_or_notify_cancel():
                        pass
                    elif inp["end"].startswith("exc"):
                        f.set_exception(env.exc(("in", i), "FalsyErr" if inp["end"] == "exc-falsy" else "ScriptedError"))
                    else:
                        f.set_result(("in", i))
                except Exception as e:
                    env.rec("complete-raised", i, type(e).__name__)
        return body

    for k in range(2):
        env.client(completer(k), "client-c%d" % k)
    if spec["out_cancel"] is not None:
        def canceller():
            env.sleep(spec["out_cancel"])
            env.rec("out-cancel", out.cancel())
        env.client(canceller, "client-x")
    env.join_all()
    env.sleep(spec["settle"])
    st = fut_state(out)
    env.rec("final-out", [st[0]])
    env.objs["final_out"] = st
    env.objs["ins_done"] = [f.done() for f in raw]
    pc = sys.modules.get("prometheus_client")
    snap = pc._snapshot() if pc is not None and hasattr(pc, "_snapshot") else None
    env.objs["metrics"] = snap
    env.rec("metrics", sorted((list(k), list(v)) for k, v in (snap or {}).items() if not k[0].endswith(("_time", "_delay"))))


def check_comb(spec, env):
    snap = env.objs.get("metrics")
    if snap is None:
        return [{"oracle": "setup", "sig": "metrics-stub-not-loaded", "msg": "prometheus_client stub not loaded"}]
    out = []
    st = env.objs["final_out"]
    T = COMB_TYPE[spec["comb"]]
    all_done = st[0] != "pending" and all(env.objs["ins_done"])
    for k, (v, mn) in sorted(snap.items()):
        name = k[0]
        if name.endswith(("_inprogress", "_queue")) and mn < 0:
            out.append({"oracle": "negative-gauge", "sig": "gauge-negative|%s|%s" % (name, k[1]), "msg": "gauge %s%r went down to %r (f_%s)" % (name, k[1:], mn, spec["comb"])})
        if all_done and name == "more_executors_future_inprogress" and v != 0:
            out.append({"oracle": "gauge-drift", "sig": "gauge-nonzero-at-quiescence|future_inprogress|%s" % k[1],
                        "msg": "f_%s: every input and the output are finished, yet %s%r = %r" % (spec["comb"], name, k[1:], v)})

    def val(metric, t):
        return sum(v for (k, (v, mn)) in snap.items() if k[0] == "more_executors_" + metric and k[1] == t)
    tot, can, err = val("future_total", T), val("future_cancel", T), val("future_error", T)
    if spec["comb"] in ("and", "or") and len(spec["inputs"]) == 1:
        return out      # a single input is returned as is: no new future, nothing to count
    if tot < 1:
        out.append({"oracle": "future-counter", "sig": "future_total-missing|%s" % T, "msg": "f_%s created a future but future_total{type=%s} = %r" % (spec["comb"], T, tot)})
    if st[0] == "cancelled" and can < 1:
        out.append({"oracle": "future-counter", "sig": "future_cancel-mismatch|%s" % T, "msg": "the f_%s output ended cancelled but future_cancel{type=%s} = %r" % (spec["comb"], T, can)})
    if st[0] == "exc" and err < 1:
        out.append({"oracle": "future-counter", "sig": "future_error-mismatch|%s" % T, "msg": "the f_%s output failed (%r) but future_error{type=%s} = %r" % (spec["comb"], type(st[1]).__name__, T, err)})
    clean = st[0] == "val" and all(i["end"] == "val" for i in spec["inputs"]) and not any(e[3] == "out-cancel" for e in env.sim.log)
    if clean:
        for k, (v, mn) in sorted(snap.items()):
            if k[0] in ("more_executors_future_cancel", "more_executors_future_error") and v != 0:
                out.append({"oracle": "future-counter", "sig": "%s-nonzero-on-clean-run|%s" % (k[0].replace("more_executors_", ""), k[1]),
                            "msg": "f_%s: every input succeeded and nothing was cancelled, yet %s%r = %r" % (spec["comb"], k[0], k[1:], v)})
    return out


def gen(rng, tier):
    r0 = rng.random()
    if r0 < 0.12:
        return gen_comb(rng)
    if r0 < 0.24:
        return gen_timeout_focus(rng)
    depth = rng.choice([1, 1, 2, 2, 3])
    base = {"kind": rng.choice(["sync", "pool", "pool", "spy"]), "n": rng.choice([1, 2]), "name": rng.choice([None, "bx"])}
    nsubs = rng.choice([1, 2, 3, 4, 5])
    layers = gen_layers(rng, depth, nsubs=nsubs, faults=True, fast=True)
    for L in layers:
        if L["t"] == "throttle":
            L["block"] = False
            L["count"] = rng.choice([1, 1, 2])
        if L["t"] == "poll":
            L["cancel_fn"] = rng.choice([None, "true", "false"])
            if L["cancel_fn"] and rng.random() < 0.5:
                # slow for some submissions only: keeps whoever cancels them (e.g. the timeout
                # thread) busy in virtual time while other futures come and go
                L["cancel_dur"] = {"default": 0, "subs": {str(k): rng.choice([0.2, 0.4]) for k in range(nsubs) if rng.random() < 0.4}}
            if rng.random() < 0.3:
                L["raise_at"] = [rng.choice([1, 2, 3])]
        if L["t"] == "retry":
            L["sleep"] = rng.choice([0, 0.05, 0.3])
        if L["t"] == "timeout" and rng.random() < 0.5:
            L["timeout"] = rng.choice([0.05, 0.1, 0.2])
        if rng.random() < 0.3:
            L["name"] = "n%d" % rng.randrange(3)
    subs = {}
    for s in range(nsubs):
        nfail = rng.choice([0, 0, 1, 2])
        subs[str(s)] = {"script": ["ErrA"] * nfail + [rng.choice(["ok", "ok", "ErrB", "FalsyErr"])], "dur": rng.choice([0, 0.05, 0.1, 0.3])}
    nclients = rng.choice([1, 2])
    clients = [[] for _ in range(nclients)]
    for s in range(nsubs):
        c = rng.randrange(nclients)
        if rng.random() < 0.3:
            clients[c].append(["sleep", rng.choice([0.1, 0.3])])
        clients[c].append(["submit", s])
        if rng.random() < 0.4:
            c2 = rng.randrange(nclients)
            if rng.random() < 0.6:
                clients[c2].append(["sleep", rng.choice([0.01, 0.05, 0.1, 0.2])])
            clients[c2].append(["cancel", s])
    clients = [c for c in clients if c] or [[["submit", 0]]]
    spec = {"base": base, "layers": layers, "subs": subs, "clients": clients, "aux": False,
            "final_shutdown": rng.choice([None, None, True, False])}
    if base["kind"] == "pool" and rng.random() < 0.08:
        # re-entrant shutdown: a done-callback, running on one of the pool's own worker threads, shuts
        # the whole stack down (the pool then refuses to join its current thread: RuntimeError inside
        # the callback) - the executors-in-use gauges must still come down
        spec["cb_shutdown"] = rng.randrange(nsubs)
        spec["final_shutdown"] = True
    if spec["final_shutdown"] is not None and rng.random() < 0.5:
        spec["shutdown_racers"] = rng.choice([1, 1, 2])
        spec["shutdown_inner"] = rng.random() < 0.3
    if layers[-1]["t"] == "cos" and spec["final_shutdown"] is not None and base["kind"] != "sync" and rng.random() < 0.6 \
            and "cb_shutdown" not in spec:     # (a shutdown from a callback would wait out the 500 s callables: no quiescence to judge)
        # leave something for the sweep: a submission that is still running / queued at shutdown
        for k in list(subs)[:rng.choice([1, 2])]:
            subs[k]["dur"] = 500.0
            subs[k]["script"] = ["ok"]
        spec["shutdown_early"] = True
    bound = 0.0
    for s in subs:
        (_, _, work, slp) = model.eval_sub(spec, int(s))
        bound += work + slp
    spec["settle"] = round(bound + 70.0, 3)
    spec["sim"] = runner.draw_sim_cfg(rng, est=700)
    spec["sim"]["horizon_s"] = spec["settle"] * 3 + 5000
    return spec


def run(spec, env):
    if spec.get("mode") == "comb":
        return run_comb(spec, env)
    sr = StackRun(spec, env)
    env.objs["sr"] = sr
    sr.build()
    tap_submits(env, sr.chain)
    orig_submit = sr.submit

    def submit(s):
        f = orig_submit(s)
        if f is not None:
            # done-callbacks run on the thread that completed / cancelled the future
            f.add_done_callback(lambda fut, s=s: env.rec("fut-done", s, fut.cancelled()))
            if spec.get("cb_shutdown") == s:
                def shut_from_callback(_f):
                    env.rec("cb-shutdown")
                    try:
                        sr.ex.shutdown(True)
                        env.rec("cb-shutdown-ret", "ok")
                    except RuntimeError as e:
                        env.rec("cb-shutdown-ret", "RuntimeError")
                f.add_done_callback(shut_from_callback)
        return f
    sr.submit = submit
    sr.run_clients()
    env.sleep(2.0 if spec.get("shutdown_early") else spec["settle"])
    sr.finals()
    if spec["final_shutdown"] is not None:
        racers = []
        for k in range(spec.get("shutdown_racers", 0)):
            # shutdown() called by several threads at once, and on inner layers too: one executor
            # leaves the in-use gauge exactly once
            tgt = sr.chain[-1 - (k % len(sr.chain))] if spec.get("shutdown_inner") else sr.ex

            def racer(tgt=tgt):
                tgt.shutdown(spec["final_shutdown"])
            racers.append(env.client(racer, "client-sd%d" % k))
        sr.ex.shutdown(spec["final_shutdown"])
        for ts in racers:
            env.join(ts)
        sr.ex.shutdown(spec["final_shutdown"])     # and once more, sequentially: harmless
        env.rec("shutdown-done")
        env.sleep(5.0)
        sr.finals()
    pc = sys.modules.get("prometheus_client")
    snap = pc._snapshot() if pc is not None and hasattr(pc, "_snapshot") else None
    env.objs["metrics"] = snap
    env.rec("metrics", sorted((list(k), list(v)) for k, v in (snap or {}).items() if not k[0].endswith(("_time", "_delay"))))


def check(spec, env):
    sim = env.sim
    if abnormal(sim):
        return []
    if spec.get("mode") == "comb":
        return check_comb(spec, env)
    if sum(1 for e in sim.log if e[3] == "cb-shutdown") != sum(1 for e in sim.log if e[3] == "cb-shutdown-ret"):
        return []       # a shutdown issued from a callback is still in progress: the history has not quiesced
    snap = env.objs.get("metrics")
    if snap is None:
        return [{"oracle": "setup", "sig": "metrics-stub-not-loaded", "msg": "prometheus_client stub not loaded"}]
    log = sim.log
    out = []
    types = "+".join(L["t"] for L in spec["layers"])
    cul = "+".join(sorted(set(L["t"] for L in spec["layers"])))
    finals = env.objs.get("finals", {})
    all_done = all(st[0] != "pending" for st in finals.values())
    shut = spec["final_shutdown"] is not None
    # (c) no gauge below zero, ever
    for k, (v, mn) in sorted(snap.items()):
        name = k[0]
        if name.endswith(("_inprogress", "_queue")) and mn < 0:
            out.append({"oracle": "negative-gauge", "sig": "gauge-negative|%s|%s" % (name, k[1]),
                        "msg": "gauge %s%r went down to %r; layers %s" % (name, k[1:], mn, types)})
        if name.endswith(("_time", "_delay")) and v < 0:
            out.append({"oracle": "negative-sum", "sig": "sum-negative|%s" % name, "msg": "%s%r = %r" % (name, k[1:], v)})
    # (a)/(d) at quiescence nothing is pending or queued (if something is still pending - work
    # left running at a final shutdown - these gauges are allowed to be non-zero)
    for k, (v, mn) in (sorted(snap.items()) if all_done else []):
        name = k[0]
        if name in ("more_executors_future_inprogress", "more_executors_retry_queue", "more_executors_throttle_queue") and v != 0:
            out.append({"oracle": "gauge-drift", "sig": "gauge-nonzero-at-quiescence|%s|%s" % (name.replace("more_executors_", ""), k[1]),
                        "msg": "all futures are terminal and all work has finished, yet %s%r = %r; layers %s over %s; cancels: %r"
                               % (name, k[1:], v, types, spec["base"]["kind"],
                                  [(e[5], e[6]) for e in log if e[3] == "op-ret" and e[4] == "cancel"])})
    # (e) executors in use
    built = {}
    bk = spec["base"]["kind"]
    bname = spec["base"].get("name") or "default"
    if bk == "sync":
        built[("sync", bname)] = 1
    elif bk == "pool":
        built[("threadpool", bname)] = 1
    cur = bname if bk in ("sync", "pool") else "default"
    for L in spec["layers"]:
        if "name" in L:
            cur = L["name"]
        t = {"cos": "cancel_on_shutdown"}.get(L["t"], L["t"])
        built[(t, cur)] = built.get((t, cur), 0) + 1
    for (t, nm), n in sorted(built.items()):
        v = snap.get(("more_executors_exec_inprogress", t, nm), (0, 0))[0]
        want = 0 if shut else n
        if v != want:
            out.append({"oracle": "exec-gauge", "sig": "exec-inprogress|%s|%s" % (t, "after-shutdown" if shut else "alive"),
                        "msg": "exec_inprogress{type=%s,executor=%s} = %r, expected %r (%d built, %s); layers %s"
                               % (t, nm, v, want, n, "shut down" if shut else "not shut down", types)})
        tot = snap.get(("more_executors_exec_total", t, nm), (0, 0))[0]
        if tot != n:
            out.append({"oracle": "exec-counter", "sig": "exec-total|%s" % t,
                        "msg": "exec_total{type=%s,executor=%s} = %r, %d were built" % (t, nm, tot, n)})
    # (f) counters determined by the history: the top-level future type
    top = None
    for L in reversed(spec["layers"]):
        if L["t"] != "cos":
            top = L
            break
    if top is not None and spec["layers"] and spec["layers"][-1]["t"] != "cos" or (top is not None and all(L["t"] == "cos" for L in spec["layers"][spec["layers"].index(top) + 1:])):
        ttype = TYPE_OF.get(top["t"])
        # executor label of that layer
        cur = bname if bk in ("sync", "pool") else "default"
        for L in spec["layers"]:
            if "name" in L:
                cur = L["name"]
            if L is top:
                break
        n_created = sum(1 for e in log if e[3] == "op-ret" and e[4] == "submit" and e[6] == "ok")
        n_canc = sum(1 for st in finals.values() if st[0] == "cancelled")
        n_err = sum(1 for st in finals.values() if st[0] == "exc")
        same_type_layers = sum(1 for L in spec["layers"] if L["t"] == top["t"])
        if ttype and same_type_layers == 1 and not any(L["t"] == "retry" for L in spec["layers"][spec["layers"].index(top) + 1:]):
            for (metric, want) in (("future_total", n_created), ("future_cancel", n_canc), ("future_error", n_err)):
                v = snap.get(("more_executors_" + metric, ttype, cur), (0, 0))[0]
                if v != want:
                    out.append({"oracle": "future-counter", "sig": "%s-mismatch|%s" % (metric, ttype),
                                "msg": "%s{type=%s,executor=%s} = %r but the history has %d (top-level futures created %d, cancelled %d, failed %d); layers %s"
                                       % (metric, ttype, cur, v, want, n_created, n_canc, n_err, types)})
    # retry_total / poll_total / poll_error with exactly one such layer
    retries = [i for i, L in enumerate(spec["layers"]) if L["t"] == "retry"]
    if len(retries) == 1:
        i = retries[0]
        cur = bname if bk in ("sync", "pool") else "default"
        for L in spec["layers"][:i + 1]:
            if "name" in L:
                cur = L["name"]
        # re-submissions = hand-overs to the retry layer's delegate (chain[i]) beyond the first
        # per submission, as seen by the instance-level submit tap
        per = {}
        for e in log:
            if e[3] == "dsubmit" and e[4] == i:
                per[e[5]] = per.get(e[5], 0) + 1
        want = sum(max(n - 1, 0) for n in per.values())
        v = snap.get(("more_executors_retry_total", cur), (0, 0))[0]
        if v != want:
            out.append({"oracle": "retry-counter", "sig": "retry-total-mismatch",
                        "msg": "retry_total{executor=%s} = %r but the RetryExecutor re-submitted to its delegate %d times; layers %s" % (cur, v, want, types)})
    # timeout_total: every cancelled top-level future was cancelled by exactly one successful
    # cancel() - the client's, the timeout thread's or the shutdown sweep's
    touts = [i for i, L in enumerate(spec["layers"]) if L["t"] == "timeout"]
    sd_seq = [e[0] for e in log if e[3] == "shutdown-done"]
    first_finals = {}
    for e in log:
        if e[3] == "final" and (not sd_seq or e[0] < sd_seq[0]):
            first_finals[e[4]] = e[5][0]
    # (not judged when a done-callback shuts the stack down: that callback may run on the timeout
    #  thread, and the shutdown sweep it performs there is not a timeout)
    if len(touts) == 1 and all(L["t"] == "cos" for L in spec["layers"][touts[0] + 1:]) and spec.get("cb_shutdown") is None:
        i = touts[0]
        cur = bname if bk in ("sync", "pool") else "default"
        for L in spec["layers"][:i + 1]:
            if "name" in L:
                cur = L["name"]
        client_true = set(e[5] for e in log if e[3] == "op-ret" and e[4] == "cancel" and e[6] is True)
        # before any shutdown sweep: cancelled futures not cancelled by a client were timed out -
        # unless an inner layer's future was cancelled from below, which only a second timeout layer could do
        # (a client cancel() also returns True on a future the timeout already cancelled, so a
        # future both parties "cancelled" may belong to either: the count is bracketed)
        # exact attribution: a future's done-callbacks run on the thread whose cancel() succeeded
        ttids = set(t.tid for t in sim.threads if t.name.startswith("TimeoutExecutor"))
        by_timeout = sum(1 for e in log if e[3] == "fut-done" and e[5] and e[2] in ttids and (not sd_seq or e[0] < sd_seq[0]))
        after_sd = sum(1 for e in log if e[3] == "fut-done" and e[5] and e[2] in ttids and sd_seq and e[0] >= sd_seq[0])
        # a future somebody else cancelled at (or after) its deadline may also have received the
        # timeout's cancel(), which then returns True as well: those may be counted either way
        T_ns = int(spec["layers"][i]["timeout"] * 1e9)
        t_inv = {e[5]: e[1] for e in log if e[3] == "op" and e[4] == "submit"}
        amb = 0
        for e in log:
            if e[3] == "fut-done" and e[5] and e[2] not in ttids and e[4] in t_inv:
                if e[1] >= t_inv[e[4]] + T_ns - 2000000:
                    amb += 1
        v = snap.get(("more_executors_timeout", cur), (0, 0))[0]
        exact = by_timeout + after_sd
        if not (exact <= v <= exact + amb):
            out.append({"oracle": "timeout-counter", "sig": "timeout-total-mismatch",
                        "msg": "timeout{executor=%s} = %r but %d top-level futures were cancelled by the timeout thread (+%d cancelled by others at or after their deadline); layers %s"
                               % (cur, v, exact, amb, types)})
    # shutdown_cancel_total: futures the final shutdown() of a cancel-on-shutdown top layer cancelled
    if spec["layers"] and spec["layers"][-1]["t"] == "cos" and shut and sum(1 for L in spec["layers"] if L["t"] == "cos") == 1 \
            and spec.get("cb_shutdown") is None:     # (with a shutdown from a callback the sweep happens earlier, at an undetermined point of the history)
        cur = bname if bk in ("sync", "pool") else "default"
        for L in spec["layers"]:
            if "name" in L:
                cur = L["name"]
        want = sum(1 for s_, st_ in finals.items() if st_[0] == "cancelled" and first_finals.get(s_) != "cancelled")
        v = snap.get(("more_executors_shutdown_cancel", cur), (0, 0))[0]
        if v != want:
            out.append({"oracle": "shutdown-cancel-counter", "sig": "shutdown-cancel-total-mismatch",
                        "msg": "shutdown_cancel{executor=%s} = %r but %d futures were cancelled by the shutdown; layers %s" % (cur, v, want, types)})
    polls = [i for i, L in enumerate(spec["layers"]) if L["t"] == "poll"]
    if len(polls) == 1:
        i = polls[0]
        cur = bname if bk in ("sync", "pool") else "default"
        for L in spec["layers"][:i + 1]:
            if "name" in L:
                cur = L["name"]
        n_poll = sum(1 for e in log if e[3] == "ufn" and e[4] == "poll" and e[5] == i)
        n_perr = sum(1 for e in log if e[3] == "ufn" and e[4] == "poll-raise" and e[5] == i)
        v = snap.get(("more_executors_poll_total", cur), (0, 0))[0]
        # the poll thread may be inside one more call when the snapshot is taken
        if not (n_poll - 1 <= v <= n_poll):
            out.append({"oracle": "poll-counter", "sig": "poll-total-mismatch",
                        "msg": "poll_total{executor=%s} = %r but the poll function was called %d times" % (cur, v, n_poll)})
        v = snap.get(("more_executors_poll_error", cur), (0, 0))[0]
        if v != n_perr:
            out.append({"oracle": "poll-counter", "sig": "poll-error-mismatch",
                        "msg": "poll_error{executor=%s} = %r but the poll function raised %d times" % (cur, v, n_perr)})
    return out


def probes(spec, env):
    sim = env.sim
    log = sim.log
    if spec.get("mode") == "comb":
        return {"combinator:" + spec["comb"]: 1, "metric-label-sets-checked": len(env.objs.get("metrics") or {}),
                "history:input-failed-or-cancelled": sum(1 for i in spec["inputs"] if i["end"] != "val"),
                "history:output-cancel": sum(1 for e in log if e[3] == "out-cancel"),
                "_nontrivial": sim.preemptions > 0 and len(spec["inputs"]) >= 2}
    pr = {"history:cancel-True": sum(1 for e in log if e[3] == "op-ret" and e[4] == "cancel" and e[6] is True),
          "history:cancel-False": sum(1 for e in log if e[3] == "op-ret" and e[4] == "cancel" and e[6] is False),
          "history:retries": sum(1 for e in log if e[3] == "call" and e[5] > 1),
          "history:failures": sum(1 for e in log if e[3] == "call-end" and e[6] != "ok"),
          "history:timeout-layer-firing": 1 if any(L["t"] == "timeout" and L["timeout"] < 100 for L in spec["layers"]) else 0,
          "history:final-shutdown": 1 if spec["final_shutdown"] is not None else 0,
          "metric-label-sets-checked": len(env.objs.get("metrics") or {}),
          "abnormal-runs": 1 if abnormal(sim) else 0}
    pr["_nontrivial"] = sim.preemptions > 0 and (pr["history:cancel-True"] + pr["history:cancel-False"] + pr["history:retries"] + pr["history:failures"]) > 0
    return pr


def shrink(spec):
    def cp():
        return json.loads(json.dumps(spec))
    if spec.get("mode") == "comb":
        for i in range(len(spec["inputs"])):
            if len(spec["inputs"]) > 1:
                s = cp()
                del s["inputs"][i]
                yield s
        if spec["out_cancel"] is not None:
            s = cp()
            s["out_cancel"] = None
            yield s
        return
    for i in range(len(spec["layers"])):
        if len(spec["layers"]) > 1:
            s = cp()
            del s["layers"][i]
            yield s
    for c in range(len(spec["clients"])):
        if len(spec["clients"]) > 1:
            s = cp()
            del s["clients"][c]
            yield s
    for c in range(len(spec["clients"])):
        for o in range(len(spec["clients"][c])):
            s = cp()
            del s["clients"][c][o]
            if s["clients"][c]:
                yield s
    for k, sub in spec["subs"].items():
        if len(sub["script"]) > 1:
            s = cp()
            s["subs"][k]["script"] = sub["script"][1:]
            yield s
    if spec["final_shutdown"] is not None:
        s = cp()
        s["final_shutdown"] = None
        yield s
