"""C13 - map / flat_map laws: fn on success, error_fn on failure, exceptions preserved."""
import json
import traceback
from concurrent.futures import Future

from harness import runner
from harness.env import SpyFuture, desc
from harness.oracles import abnormal
from harness.stackrun import fut_state, state_desc

PROP = "C13"
PLAN = {"quick": {"runs": 16000, "wall_s": 90}, "thorough": {"runs": 400000, "wall_s": 1200}}
RULE = ("Each run: a chain of 1-4 map / flat_map steps in executor form (with_map / with_flat_map over sync or a thread pool) or "
        "f_* form (f_map / f_flat_map over an input completed by another thread, or already done), with fn / error_fn scripted "
        "per step: return, raise new, re-raise the same object, return a future in any state (done, failed, cancelled, pending and "
        "completed later by a third thread, or one whose value is itself a future), return a non-future, or omitted; an input whose value is a future; an optional cancel() of the output racing the input's "
        "completion; for pure map chains the composed function is evaluated in the same run. Non-trivial = a pre-emption and an "
        "input (or inner future) completed by another thread.")
ASSUMPTIONS = ["an inner future that ends cancelled makes the output cancelled (either cancelled or failed would satisfy C03)"]


def family(sig):
    return sig.rsplit("|", 1)[0]


FN_MAP = [None, "wrap", "wrap", "raise"]
ERR_MAP = [None, None, "wrap", "reraise", "raise", "none"]
FN_FLAT = [None, "done", "done", "failed", "cancelled", "pending-val", "pending-exc", "nonfuture", "raise",
           "nested-val", "nested-exc", "nested-pending"]   # nested: the returned future's *value* is itself a future
ERR_FLAT = [None, None, "done", "reraise"]


def gen(rng, tier):
    form = rng.choice(["ex", "f"])
    n = rng.choice([1, 1, 2, 3, 4])
    steps = []
    for k in range(n):
        kind = rng.choice(["map", "map", "flat_map"])
        if kind == "map":
            steps.append({"kind": kind, "fn": rng.choice(FN_MAP), "err": rng.choice(ERR_MAP)})
        else:
            steps.append({"kind": kind, "fn": rng.choice(FN_FLAT), "err": rng.choice(ERR_FLAT)})
    spec = {"form": form, "steps": steps, "input": rng.choice(["val", "val", "val", "exc", "exc", "exc-falsy", "exc-cancelled", "val-future"]),
            "input_at": rng.choice([None, 0, 0.05, 0.1]) if form == "f" else rng.choice([0, 0.05]),
            "base": rng.choice(["sync", "pool"]), "inner_at": rng.choice([0.02, 0.1]),
            "cancel_at": rng.choice([None, None, None, 0, 0.05, 0.1, "fn-running", "fn-running"]), "settle": 5.0,
            # class of the exceptions raised by fn / error_fn and inside returned futures
            "raise_cls": rng.choice(["ScriptedError", "ScriptedError", "ScriptedError", "ErrStop", "ErrCancelled", "ErrAttr", "ErrKey"])}
    spec["sim"] = runner.draw_sim_cfg(rng, est=400)
    if spec["cancel_at"] == "fn-running":
        runner.prefer_place(spec["sim"], 0.4)
    spec["sim"]["horizon_s"] = 5000
    # (drawn last) the input is failed from inside an unrelated `except` block: sys.exc_info() is then
    # not empty on the completing thread, and must not leak into the propagated exception
    spec["in_except"] = rng.random() < 0.3
    return spec


def model(spec):
    """Sequential reference: returns ('val', v) | ('exc', tag) | ('typeerror',) | ('cancelled',) and
    expected call counts per step {(k,'fn'|'err'): 0|1}."""
    cur = ("val", ("in",)) if spec["input"] == "val" else ("exc", ("in",))   # exc-falsy: same, the object is merely falsy
    if spec["input"] == "val-future":
        cur = ("val", "<future>")      # the input's value is a (failed) future: a value like any other
    calls = {}
    for k, st in enumerate(spec["steps"]):
        flat = st["kind"] == "flat_map"
        calls[(k, "fn")] = 0
        calls[(k, "err")] = 0
        if cur[0] == "cancelled":
            continue
        if cur[0] == "val":
            b = st["fn"]
            if b is None:
                continue   # identity (flat_map's default fn is f_return)
            calls[(k, "fn")] = 1
            x = cur[1]
            if b == "raise":
                cur = ("exc", ("fn", k))
            elif not flat:
                cur = ("val", ("m", k, x))
            elif b == "done":
                cur = ("val", ("fm", k, x))
            elif b == "failed":
                cur = ("exc", ("inner", k))
            elif b == "cancelled":
                cur = ("cancelled",)
            elif b == "pending-val":
                cur = ("val", ("fm", k, x))
            elif b == "pending-exc":
                cur = ("exc", ("inner", k))
            elif b == "nonfuture":
                cur = ("typeerror",)
            elif b.startswith("nested"):
                cur = ("val", "<future>")     # one level is flattened, not two
        else:
            b = st["err"]
            if b is None:
                continue
            calls[(k, "err")] = 1
            if b == "reraise":
                pass
            elif b == "raise":
                cur = ("exc", ("errfn", k))
            elif b == "none":
                cur = ("val", None)
            elif b == "wrap":
                cur = ("val", ("e", k, cur[1] if cur[0] == "exc" else "TypeError"))
            elif b == "done":
                cur = ("val", ("fe", k, cur[1] if cur[0] == "exc" else "TypeError"))
    return cur, calls


def composable(spec):
    return all(s["kind"] == "map" and s["fn"] == "wrap" and s["err"] is None for s in spec["steps"]) and len(spec["steps"]) >= 2


def run(spec, env):
    from more_executors import Executors, futures as F
    sim = env.sim
    pend = []   # inner futures to complete later: (future, kind, k)

    def mk_fn(k, st):
        flat = st["kind"] == "flat_map"
        b = st["fn"]
        if b is None:
            return None

        def fn(x):
            env.rec("fn", k, desc(x))
            env.hit("fn-running")
            sim.yield_point("user-fn")
            try:
                return body(x)
            finally:
                sim.yield_point("user-fn")
                env.rec("fn-end", k)

        def body(x):
            if b == "raise":
                raise env.exc(("fn", k), spec.get("raise_cls", "ScriptedError"))
            if not flat:
                return ("m", k, x)
            if b == "done":
                return F.f_return(("fm", k, x))
            if b == "failed":
                return F.f_return_error(env.exc(("inner", k), spec.get("raise_cls", "ScriptedError")))
            if b == "cancelled":
                return F.f_return_cancelled()
            if b in ("pending-val", "pending-exc"):
                inner = SpyFuture(env, "inner%d" % k)
                pend.append((inner, b, k, x))
                env.hit("inner-created")
                return inner
            if b.startswith("nested"):
                g = SpyFuture(env, "nested%d" % k)
                if b != "nested-pending":
                    g.set_running_or_notify_cancel()
                    if b == "nested-val":
                        g.set_result(("nn", k))
                    else:
                        g.set_exception(env.exc(("nn", k)))
                env.objs.setdefault("nested", {})[k] = g
                return F.f_return(g)
            return ("nf", k, x)
        return fn

    def mk_err(k, st):
        flat = st["kind"] == "flat_map"
        b = st["err"]
        if b is None:
            return None

        def err(ex):
            env.rec("err", k, desc(ex))
            env.hit("fn-running")
            sim.yield_point("user-fn")
            try:
                return ebody(ex)
            finally:
                sim.yield_point("user-fn")
                env.rec("fn-end", k)

        def ebody(ex):
            tag = getattr(ex, "tag", "TypeError")
            if b == "reraise":
                raise ex
            if b == "raise":
                raise env.exc(("errfn", k), spec.get("raise_cls", "ScriptedError"))
            if b == "wrap":
                return ("e", k, tag)
            if b == "none":
                return None
            return F.f_return(("fe", k, tag))
        return err

    def in_value():
        if spec["input"] != "val-future":
            return ("in",)
        g = SpyFuture(env, "invalue")
        g.set_running_or_notify_cancel()
        g.set_exception(env.exc(("invalue",)))
        env.objs["invalue"] = g
        return g

    def work():
        env.rec("work")
        if spec["input_at"]:
            sim.sleep(spec["input_at"])
        if spec["input"] == "val-future":
            return in_value()
        if spec["input"] != "val":
            raise env.exc(("in",), {"exc-falsy": "FalsyErr", "exc-cancelled": "ErrCancelled"}.get(spec["input"], "ScriptedError"))
        return ("in",)

    raw = None
    if spec["form"] == "ex":
        ex = Executors.sync() if spec["base"] == "sync" else Executors.thread_pool(max_workers=1)
        for k, st in enumerate(spec["steps"]):
            kw = {}
            if mk_fn(k, st) is not None:
                kw["fn"] = mk_fn(k, st)
            if mk_err(k, st) is not None:
                kw["error_fn"] = mk_err(k, st)
            ex = ex.with_map(**kw) if st["kind"] == "map" else ex.with_flat_map(**kw)
        out = ex.submit(work)
        comp = None
    else:
        raw = SpyFuture(env, "in")
        if spec["input_at"] is None:
            raw.set_running_or_notify_cancel()
            if spec["input"] not in ("val", "val-future"):
                raw.set_exception(env.exc(("in",), {"exc-falsy": "FalsyErr", "exc-cancelled": "ErrCancelled"}.get(spec["input"], "ScriptedError")))
            else:
                raw.set_result(in_value())
        out = raw
        for k, st in enumerate(spec["steps"]):
            if st["kind"] == "map":
                out = F.f_map(out, mk_fn(k, st), mk_err(k, st))
            else:
                out = F.f_flat_map(out, mk_fn(k, st), mk_err(k, st))
        comp = None
        if composable(spec):
            n = len(spec["steps"])

            def composed(x):
                for k in range(n):
                    x = ("m", k, x)
                return x
            comp = F.f_map(raw, composed)

    def unrelated_raiser():
        raise KeyError("unrelated, handled by the completing thread")

    def completer():
        if raw is not None and spec["input_at"] is not None:
            if spec["input_at"]:
                env.sleep(spec["input_at"])
            try:
                if raw.set_running_or_notify_cancel():
                    if spec["input"] not in ("val", "val-future"):
                        the_exc = env.exc(("in",), {"exc-falsy": "FalsyErr", "exc-cancelled": "ErrCancelled"}.get(spec["input"], "ScriptedError"))
                        if spec.get("in_except"):
                            try:
                                unrelated_raiser()
                            except KeyError:
                                raw.set_exception(the_exc)
                        else:
                            raw.set_exception(the_exc)
                    else:
                        raw.set_result(in_value())
            except Exception as e:
                env.rec("complete-raised", type(e).__name__)
        env.rec("input-completed")

    def third():
        # completes inner futures returned by flat-map functions
        done = 0
        for _ in range(40):
            while done < len(pend):
                (inner, b, k, x) = pend[done]
                done += 1
                env.sleep(spec["inner_at"])
                try:
                    if inner.set_running_or_notify_cancel():
                        if b == "pending-val":
                            inner.set_result(("fm", k, x))
                        else:
                            inner.set_exception(env.exc(("inner", k), spec.get("raise_cls", "ScriptedError")))
                except Exception as e:
                    env.rec("complete-raised", type(e).__name__)
                env.rec("inner-completed", k)
            env.sleep(0.05)

    def canceller():
        if spec["cancel_at"] == "fn-running":
            env.await_("fn-running", 2.0)      # land while a mapping function is executing
        elif spec["cancel_at"]:
            env.sleep(spec["cancel_at"])
        i = env.rec("cancel")
        try:
            r = out.cancel()
        except Exception as e:
            r = "raised " + type(e).__name__
        env.rec("cancel-ret", r, i)

    env.client(completer, "client-in")
    env.client(third, "client-third")
    if spec["cancel_at"] is not None:
        env.client(canceller, "client-x")
    env.join_all()
    env.sleep(spec["settle"])
    st = fut_state(out)
    env.objs["final"] = st
    env.rec("final", state_desc(st) if not (st[0] == "val" and isinstance(st[1], Future)) else ["val", "<future>"])
    if st[0] == "exc":
        tb = "".join(traceback.format_tb(st[1].__traceback__)) if st[1].__traceback__ else ""
        env.objs["tb_has_work"] = ("in work" in tb)
        env.objs["tb_unrelated"] = ("unrelated_raiser" in tb)
    if comp is not None:
        env.objs["comp"] = fut_state(comp)


def check(spec, env):
    sim = env.sim
    if abnormal(sim):
        return []
    log = sim.log
    out = []
    st = env.objs.get("final")
    if st is None:
        return out
    (want, calls) = model(spec)
    shape = "%s:%s" % (spec["form"], "+".join(s["kind"] for s in spec["steps"]))
    cancelled_by_client = any(e[3] == "cancel" for e in log)
    # call counts: each fn / error_fn at most once and only for its own case
    for k, s in enumerate(spec["steps"]):
        nf = sum(1 for e in log if e[3] == "fn" and e[4] == k)
        ne = sum(1 for e in log if e[3] == "err" and e[4] == k)
        if nf > 1 or ne > 1:
            out.append({"oracle": "called-twice", "sig": "fn-called-twice|%s|%s" % (s["kind"], "fn" if nf > 1 else "error_fn"),
                        "msg": "step %d (%s): fn called %d times, error_fn %d times; chain %s" % (k, s["kind"], nf, ne, shape)})
        if not cancelled_by_client:
            if nf != calls[(k, "fn")] or ne != calls[(k, "err")]:
                out.append({"oracle": "wrong-case", "sig": "fn-wrong-case|%s" % s["kind"],
                            "msg": "step %d (%s, fn=%r, error_fn=%r): fn called %d (expected %d), error_fn called %d (expected %d); input %s; chain %s"
                                   % (k, s["kind"], s["fn"], s["err"], nf, calls[(k, "fn")], ne, calls[(k, "err")], spec["input"], shape)})
        elif nf > calls[(k, "fn")] or ne > calls[(k, "err")]:
            out.append({"oracle": "wrong-case", "sig": "fn-wrong-case|%s" % s["kind"],
                        "msg": "step %d (%s): fn called %d (at most %d expected), error_fn %d (at most %d)" % (k, s["kind"], nf, calls[(k, "fn")], ne, calls[(k, "err")])})
    # a cancel() issued while a mapping function is executing cannot succeed: the input has
    # completed (nothing left to cancel) and the output is not decided yet
    for c in [e for e in log if e[3] == "cancel"]:
        r = [e for e in log if e[3] == "cancel-ret" and e[5] == c[0]]
        running = False
        open_fns = 0
        for e in log:
            if e[0] >= c[0]:
                break
            if e[3] in ("fn", "err"):
                open_fns += 1
            elif e[3] == "fn-end":
                open_fns -= 1
        # (not judged when the chain ends cancelled anyway - cancel() then truthfully reports True -
        #  or when a flat-map hands back a pending inner future, which can be cancelled)
        if open_fns > 0 and r and r[0][4] is True and want[0] != "cancelled" \
                and not any(s["fn"] in ("pending-val", "pending-exc", "cancelled") for s in spec["steps"]):
            out.append({"oracle": "cancel-during-fn", "sig": "cancel-true-while-fn-running|%s" % shape.split(":")[0],
                        "msg": "cancel() of the output returned True while a mapping function was executing (input already completed): "
                               "the mapped outcome %r was dropped; chain %s %r" % (want, shape, spec["steps"])})
    if st[0] == "cancelled" and (cancelled_by_client or want[0] == "cancelled"):
        return out
    if st[0] == "pending":
        out.append({"oracle": "pending", "sig": "pending|%s" % shape.split(":")[0],
                    "msg": "output still pending after %.0fs; expected %r; chain %s %r" % (spec["settle"], want, shape, spec["steps"])})
        return out
    ok = False
    if want[0] == "val":
        ok = st[0] == "val" and _t(desc(st[1])) == _t(want[1])
        if ok and want[1] == "<future>":
            # the very future that was the value, not a copy and not its outcome
            last_nested = [k for k, s_ in enumerate(spec["steps"]) if (s_["fn"] or "").startswith("nested")]
            g = env.objs.get("nested", {}).get(last_nested[-1]) if last_nested else env.objs.get("invalue")
            ok = st[1] is g
    elif want[0] == "exc":
        ok = st[0] == "exc" and st[1] is env.excs.get(repr(want[1]))
    elif want[0] == "typeerror":
        ok = st[0] == "exc" and isinstance(st[1], TypeError)
    elif want[0] == "cancelled":
        ok = st[0] == "cancelled"
    if not ok:
        out.append({"oracle": "outcome", "sig": "wrong-outcome|%s|%s" % (want[0], "+".join(sorted(set(s["kind"] for s in spec["steps"])))),
                    "msg": "expected %r, got %r; input %s; chain %s %r" % (want, state_desc(st) if not isinstance(st[-1], Future) else "nested future", spec["input"], shape, spec["steps"])})
    # re-raising the same exception keeps the original traceback
    if ok and want == ("exc", ("in",)) and spec["form"] == "ex" and any(s["err"] == "reraise" for s in spec["steps"]):
        if env.objs.get("tb_has_work") is False:
            out.append({"oracle": "traceback", "sig": "traceback-lost", "msg": "the re-raised exception lost the frames of the callable that raised it; chain %s" % shape})
    # whatever exception comes out never carries the frames of an unrelated exception that merely
    # happened to be in flight on the thread that completed the input
    if env.objs.get("tb_unrelated"):
        out.append({"oracle": "traceback", "sig": "traceback-foreign", "msg": "the output's exception carries the traceback of an unrelated exception "
                    "that was being handled on the completing thread; input %s; chain %s" % (spec["input"], shape)})
    # composition
    comp = env.objs.get("comp")
    if comp is not None and not cancelled_by_client and comp[0] != "pending":
        if comp[0] != st[0] or (comp[0] == "val" and _t(desc(comp[1])) != _t(desc(st[1]))) or (comp[0] == "exc" and comp[1] is not st[1]):
            out.append({"oracle": "composition", "sig": "composition-law",
                        "msg": "mapping step by step gave %r, mapping with the composed function gave %r" % (state_desc(st), state_desc(comp))})
    return out


def _t(x):
    if isinstance(x, (list, tuple)):
        return tuple(_t(y) for y in x)
    return x


def probes(spec, env):
    sim = env.sim
    log = sim.log
    pr = {"form:" + spec["form"]: 1, "steps": len(spec["steps"]),
          "fn-calls": sum(1 for e in log if e[3] == "fn"), "error_fn-calls": sum(1 for e in log if e[3] == "err"),
          "inner-futures-completed-by-third-thread": sum(1 for e in log if e[3] == "inner-completed"),
          "output-cancel-racing": sum(1 for e in log if e[3] == "cancel"),
          "composition-compared": 1 if env.objs.get("comp") is not None else 0,
          "abnormal-runs": 1 if abnormal(sim) else 0}
    other = (spec["form"] == "f" and spec["input_at"] is not None) or spec["base"] == "pool" or pr["inner-futures-completed-by-third-thread"] > 0
    pr["_nontrivial"] = sim.preemptions > 0 and bool(other)
    return pr


def shrink(spec):
    def cp():
        return json.loads(json.dumps(spec))
    for i in range(len(spec["steps"])):
        if len(spec["steps"]) > 1:
            s = cp()
            del s["steps"][i]
            yield s
    if spec["cancel_at"] is not None:
        s = cp()
        s["cancel_at"] = None
        yield s
    for i, st in enumerate(spec["steps"]):
        for k in ("fn", "err"):
            if st[k] is not None:
                s = cp()
                s["steps"][i][k] = None
                yield s
