"""Real-thread reproduction of finding F12 (no simulator): a cancel() landing in
ThrottleExecutor's hand-over window - after the job left the throttle queue and was submitted
to the delegate, before the ThrottleFuture learnt its delegate future - returns False and is
not forwarded, although the work is still only queued in the delegate and could be cancelled.

    /venv/bin/python findings/repro_F12.py     -> prints DEFECT PRESENT or OK
The window is widened the way a pre-emption would: the throttle thread sleeps 0.2 s just before
ThrottleFuture._set_delegate (no library logic is changed).
"""
import sys
import threading
import time

sys.path.insert(0, "/repo")
from more_executors import Executors  # noqa: E402
from more_executors._impl.throttle import ThrottleFuture  # noqa: E402

orig = ThrottleFuture._set_delegate


def slow(self, delegate):
    if delegate is not None and threading.current_thread().name.startswith("ThrottleExecutor"):
        time.sleep(0.2)
    return orig(self, delegate)


ThrottleFuture._set_delegate = slow

pool = Executors.thread_pool(max_workers=1)
release = threading.Event()
pool.submit(release.wait)                 # keeps the only worker busy: later work stays queued
ex = pool.with_throttle(5)
started = []
f = ex.submit(lambda: started.append(1))  # handed to the pool by the throttle thread, queued there
time.sleep(0.1)                           # now inside the widened hand-over window
r = f.cancel()
release.set()
time.sleep(0.5)
print("cancel() returned %r; callable %s" % (r, "RAN" if started else "did not run"))
bad = (r is False and started)
print("DEFECT PRESENT: work that was merely queued could not be cancelled and the request was not forwarded"
      if bad else "OK")
ex.shutdown(wait=False)
sys.exit(1 if bad else 0)
