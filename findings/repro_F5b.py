"""Real-thread reproduction of finding F5b (no simulator): RetryExecutor holds its locks across
delegate.submit(); with an inline (sync) delegate a callable that submits to its own executor
deadlocks against a concurrent add_done_callback() made inside an outer layer's submit().

    /venv/bin/python findings/repro_F5b.py      -> prints HANG (defect present) or OK
Stack: Executors.sync().with_retry().with_cancel_on_shutdown(); the callable submits to the
top executor.  The client thread is inside cos.submit() (holding the cos gate) calling
add_done_callback() on the RetryFuture, whose lock the retry thread holds while running the
callable inline; the callable's nested cos.submit() wants the cos gate.
"""
import sys
import threading
import time

sys.path.insert(0, "/repo")
from more_executors import Executors  # noqa: E402

# Widen the race window the way a pre-emption would: pause the calling thread just before
# RetryFuture.add_done_callback takes the future's lock (no library logic is changed).
from more_executors._impl.retry import RetryFuture  # noqa: E402
_orig = RetryFuture.add_done_callback


def _slow_add_done_callback(self, fn):
    if threading.current_thread().name == "client":
        time.sleep(0.05)
    return _orig(self, fn)


RetryFuture.add_done_callback = _slow_add_done_callback

hung = 0
for attempt in range(20):
    ex = Executors.sync().with_retry(max_attempts=1).with_cancel_on_shutdown()

    def fn():
        ex.submit(lambda: 1)
        return 2

    done = threading.Event()

    def client():
        ex.submit(fn)
        done.set()

    t = threading.Thread(target=client, daemon=True, name="client")
    t.start()
    if not done.wait(2.0):
        hung += 1
        break
print("HANG after %d attempts (defect present)" % (attempt + 1) if hung else "OK: no hang in 20 attempts")
sys.stdout.flush()
import os
os._exit(1 if hung else 0)
