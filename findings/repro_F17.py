"""F17: an exception object whose truth value is False (e.g. an aggregate error with no members,
any exception class defining __len__ / __bool__) is taken for "no exception" in several places.
Real threads, real library; exit 1 if any of the symptoms shows."""
import sys
from concurrent.futures import Future
from more_executors import Executors
from more_executors.futures import f_zip, f_or, f_and
from more_executors.retry import ExceptionRetryPolicy


class Empty(Exception):
    def __len__(self):
        return 0


def failed():
    f = Future()
    f.set_running_or_notify_cancel()
    f.set_exception(Empty())
    return f


bad = []
for name, mk in (("f_zip", lambda: f_zip(failed(), failed())), ("f_or", lambda: f_or(failed(), failed())), ("f_and", lambda: f_and(failed(), failed()))):
    out = mk()
    if not out.done():
        bad.append("%s of inputs that failed with a falsy exception never completes" % name)
    elif not isinstance(out.exception(), Empty):
        bad.append("%s: ended %r instead of failing with the input's exception" % (name, out.exception() if out.exception() is not None else ("value", out.result())))
calls = []


def work():
    calls.append(1)
    raise Empty()


# (Future.result() itself returns None for a future that failed with a falsy exception - a quirk of
#  the standard library's `if self._exception:` - so outcomes are read with exception())
f = Executors.sync().with_retry(retry_policy=ExceptionRetryPolicy(max_attempts=3, sleep=0)).submit(work)
if not isinstance(f.exception(5), Empty):
    bad.append("retry: outcome %r" % (f.exception(),))
if len(calls) != 3:
    bad.append("ExceptionRetryPolicy(max_attempts=3): callable raising a falsy exception ran %d time(s), expected 3" % len(calls))
shown = []
f = Executors.sync().with_poll(lambda ds: [(shown.append(1), d.yield_result(1)) for d in ds]).submit(work)
if not isinstance(f.exception(5), Empty) or shown:
    bad.append("poll: a delegate that failed with a falsy exception entered the polling stage (shown to the poll function %d time(s)); outcome %r" % (len(shown), f.exception()))
for b in bad:
    print("SYMPTOM:", b)
print("ok" if not bad else "%d symptom(s)" % len(bad))
sys.exit(1 if bad else 0)
