"""F18: cancel() raised RuntimeError('Future in unexpected state') when cancelling the delegate ran a
callback that re-entered cancel() on the same future (the future's lock is re-entrant).  Public API
only: a zip over a mapped future and the very input it maps.  Exit 1 if cancel() raises."""
import sys
from concurrent.futures import Future
from more_executors.futures import f_map, f_zip

inp = Future()
mapped = f_map(inp, lambda x: x)
both = f_zip(mapped, inp)      # cancelling `inp` makes the zip cancel its other input, `mapped`, again
try:
    r = mapped.cancel()
except Exception as e:
    print("SYMPTOM: mapped.cancel() raised %s: %s" % (type(e).__name__, e))
    sys.exit(1)
print("ok: cancel() returned %r; mapped %s, zip %s" % (r, mapped._state, both._state))
sys.exit(0 if r is True and mapped.cancelled() and both.cancelled() else 1)
