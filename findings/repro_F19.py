"""F19: a RetryFuture cancelled while its job waits for the next attempt kept `delegate_future` (the
finished future of the previous attempt, whose done-callback list still holds a bound method of the
executor): a user holding on to that *finished* future kept the dropped executor, its retry thread and
the pool's threads alive.  Real threads; exit 1 if the executor survives."""
import sys
import gc, threading, time, weakref
from more_executors import Executors
def names(): return sorted(t.name for t in threading.enumerate() if "Executor" in t.name)
calls=[]
def flaky():
    calls.append(1); time.sleep(0.1); raise RuntimeError("x")
ex = Executors.thread_pool(max_workers=1).with_retry(max_attempts=5, sleep=30.0)
f = ex.submit(flaky)
time.sleep(0.5)          # first attempt failed, now waiting 30 s for the retry
print("cancel ->", f.cancel(), f)
wr = weakref.ref(ex)
del ex
for _ in range(5):
    gc.collect(); time.sleep(0.3)
print("executor alive:", wr() is not None, "threads:", names())
print("delegate_future attr:", getattr(f, "delegate_future", "n/a"))

sys.exit(1 if wr() is not None or names() else 0)
