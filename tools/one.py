"""dev helper: run single indices of a property and print outcome / log tail.
usage: tools/one.py C04 quick 0:200 [--log N] [--only outcome]"""
import sys, os, random, json, time
sys.path.insert(0, os.path.dirname(os.path.dirname(os.path.abspath(__file__))))
from harness import runner
prop, tier, rng_s = sys.argv[1], sys.argv[2], sys.argv[3]
a, b = (int(x) for x in rng_s.split(":"))
logn = int(sys.argv[sys.argv.index("--log") + 1]) if "--log" in sys.argv else 0
only = sys.argv[sys.argv.index("--only") + 1] if "--only" in sys.argv else None
mod = runner.load_prop(prop)
vseed = int(os.environ.get("VERIF_SEED", "0"))
for idx in range(a, b):
    rng = random.Random(runner.run_seed(vseed, prop, idx))
    spec = mod.gen(rng, tier)
    if spec["sim"].pop("calibrate", False):
        import json as _json
        probe = _json.loads(_json.dumps(spec)); probe["sim"].update({"strategy": "pb", "d": 0, "stall_p": 0})
        r0 = runner.execute(mod, probe)
        if r0.harness_error is None and r0.sim.step > 10:
            spec["sim"]["est"] = r0.sim.step
    t0 = time.time()
    r = runner.execute(mod, spec)
    oc = r.outcome[0] if r.outcome else None
    if only and oc != only and not (only == "viol" and r.viol) and not (only == "harness" and r.harness_error):
        continue
    print(idx, oc, "steps", r.sim.step, "sw", r.sim.switches, "t=%.3f" % r.sim.now(), "wall %.2f" % (time.time() - t0),
          [v["sig"] for v in r.viol], r.harness_error)
    if logn:
        print("OUTCOME", r.outcome); print("BLOCKED", r.sim.final_blocked)
        print(json.dumps({k: v for k, v in spec.items()}, default=str))
        for e in r.sim.log[-logn:]:
            print("   ", e)
        for v in r.viol:
            print("  VIOL", v["msg"][:1500])
