#!/bin/sh
# usage: tools/try_seeded.sh <seeded-id> <Cxx> [runs]  - run one quick check against a scratch copy with the seeded change
id=$1; prop=$2; runs=$3; w=/tmp/try-$id-$$
rm -rf $w; mkdir -p $w; cp -r /repo/more_executors $w/; find $w -name __pycache__ -prune -exec rm -rf {} \;
(cd $w && patch -p1 -s -i /verif/seeded/$id/patch.diff) || exit 2
VERIF_REPO=$w VERIF_EVIDENCE_DIR=$w/ev VERIF_REPLAY_DIR=$w/rp VERIF_MIN_S=${VERIF_MIN_S:-5} ${runs:+VERIF_RUNS=$runs} /verif/check $prop --tier quick 2>&1 | grep -v conda | grep -E "signature:|VIOLATION|quick:|HARNESS" | head -${LINES_MAX:-8}
rm -rf $w
