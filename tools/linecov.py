"""dev helper: which executable lines of the library do the workloads of the checks ever execute?
usage: tools/linecov.py <runs-per-property> [C01 C02 ...]   (16 worker processes; writes selftest/linecov.json)

Lines are recorded with a second sys.monitoring tool (each location reported once, then DISABLEd),
so the measurement does not perturb the schedules."""
import json
import os
import random
import sys
import types
from concurrent.futures import ProcessPoolExecutor
import multiprocessing

sys.path.insert(0, os.path.dirname(os.path.dirname(os.path.abspath(__file__))))
from harness import runner  # noqa: E402

TOOL = 4


def work(args):
    (prop, lo, hi) = args
    seen = set()
    mon = sys.monitoring
    if mon.get_tool(TOOL) is None:
        mon.use_tool_id(TOOL, "verif-linecov")
    mon.restart_events()
    root = os.path.join(os.path.realpath(os.environ.get("VERIF_REPO", "/repo")), "more_executors") + os.sep

    def on_line(code, line):
        f = code.co_filename
        if f.startswith(root) or os.path.realpath(f).startswith(root):
            seen.add((os.path.realpath(f)[len(root):], line))
        return mon.DISABLE

    mon.register_callback(TOOL, mon.events.LINE, on_line)
    mod = runner.load_prop(prop)
    mon.set_events(TOOL, mon.events.LINE)
    for idx in range(lo, hi):
        rng = random.Random(runner.run_seed(0, prop, idx))
        spec = mod.gen(rng, "quick")
        spec["sim"].pop("calibrate", None)
        try:
            runner.execute(mod, spec)
        except Exception:
            pass
    mon.set_events(TOOL, 0)
    return sorted(seen)


def executable_lines(path):
    src = open(path).read()
    code = compile(src, path, "exec")
    out = set()
    stack = [code]
    while stack:
        c = stack.pop()
        for (_s, _e, ln) in c.co_lines():
            if ln is not None and ln > 0:
                out.add(ln)
        for k in c.co_consts:
            if isinstance(k, types.CodeType):
                stack.append(k)
    # lines executed at import time (def / class / decorators / docstrings) are not interesting
    return out


def main():
    n = int(sys.argv[1]) if len(sys.argv) > 1 else 400
    props = sys.argv[2:] or ["C%02d" % i for i in range(1, 21)]
    jobs = []
    per = max(1, n // 8)
    for p in props:
        for lo in range(0, n, per):
            jobs.append((p, lo, min(n, lo + per)))
    seen = {}
    with ProcessPoolExecutor(16, mp_context=multiprocessing.get_context("fork")) as ex:
        for (job, res) in zip(jobs, ex.map(work, jobs)):
            for (f, ln) in res:
                seen.setdefault(f, {}).setdefault(ln, set()).add(job[0])
    root = os.path.join(os.path.realpath(os.environ.get("VERIF_REPO", "/repo")), "more_executors")
    report = {}
    for dp, _dn, fns in os.walk(root):
        for fn in fns:
            if not fn.endswith(".py"):
                continue
            path = os.path.join(dp, fn)
            rel = path[len(root) + 1:]
            ex_lines = executable_lines(path)
            got = set(seen.get(rel, {}))
            src = open(path).read().splitlines()
            # a function body line is "missed" only if never seen at run time; import-time lines
            # (module level, def/class headers) were executed before monitoring started
            missed = []
            for ln in sorted(ex_lines - got):
                text = src[ln - 1].strip()
                ind = len(src[ln - 1]) - len(src[ln - 1].lstrip())
                if ind == 0 or text.startswith(("def ", "class ", "@", '"""', "'''")):
                    continue
                missed.append((ln, text[:90]))
            report[rel] = {"executable": len(ex_lines), "seen_at_runtime": len(got), "missed": missed}
    os.makedirs(os.path.join(runner.VERIF, "selftest"), exist_ok=True)
    json.dump(report, open(os.path.join(runner.VERIF, "selftest", "linecov.json"), "w"), indent=1)
    for rel in sorted(report):
        r = report[rel]
        if r["missed"]:
            print("== %s: %d missed" % (rel, len(r["missed"])))
            for (ln, t) in r["missed"]:
                print("   %4d  %s" % (ln, t))


if __name__ == "__main__":
    main()
