"""dev helper: which scheduling strategies find a seeded change?
usage: VERIF_REPO=<patched copy> tools/strat_stats.py C02 20000   (16 processes)"""
import collections
import json
import multiprocessing
import os
import random
import sys
from concurrent.futures import ProcessPoolExecutor

sys.path.insert(0, os.path.dirname(os.path.dirname(os.path.abspath(__file__))))
from harness import runner  # noqa: E402


def work(a):
    (prop, lo, hi) = a
    mod = runner.load_prop(prop)
    runs = collections.Counter()
    hits = collections.Counter()
    sigs = collections.Counter()
    for idx in range(lo, hi):
        rng = random.Random(runner.run_seed(int(os.environ.get("VERIF_SEED", "0")), prop, idx))
        spec = mod.gen(rng, "quick")
        spec["sim"].pop("calibrate", None)
        r = runner.execute(mod, spec)
        k = spec["sim"]["strategy"] + ("+line" if spec["sim"].get("line") else "") + ("+uq" if spec["sim"].get("user_q") else "") + ("+co" if spec["sim"].get("coalesce_ns") else "")
        runs[k] += 1
        if r.viol:
            hits[k] += 1
            sigs[r.viol[0]["sig"][:80]] += 1
    return runs, hits, sigs


if __name__ == "__main__":
    prop, n = sys.argv[1], int(sys.argv[2])
    per = n // 32
    jobs = [(prop, i * per, (i + 1) * per) for i in range(32)]
    R, H, S = collections.Counter(), collections.Counter(), collections.Counter()
    with ProcessPoolExecutor(16, mp_context=multiprocessing.get_context("fork")) as ex:
        for (r, h, s) in ex.map(work, jobs):
            R.update(r); H.update(h); S.update(s)
    for k in sorted(R):
        print("%-22s runs %6d hits %4d  (%.3f%%)" % (k, R[k], H[k], 100.0 * H[k] / R[k]))
    print("total hits", sum(H.values()), "of", sum(R.values()))
    for k, v in S.most_common(6):
        print("  ", v, k)
