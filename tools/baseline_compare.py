"""Runs the repository's pinned suite and compares the passing set with BASELINE.json stable_pass."""
import json, subprocess, sys, xml.etree.ElementTree as ET, os
out = sys.argv[1] if len(sys.argv) > 1 else "/tmp/verif-baseline.junit.xml"
repo = os.environ.get("VERIF_REPO", "/repo")
subprocess.run("cd %s && /venv/bin/python -m pytest -ra -q -p no:cacheprovider --timeout=900 --continue-on-collection-errors --junitxml=%s > %s.log 2>&1" % (repo, out, out), shell=True)
b = json.load(open("/root/.vp/BASELINE.json"))
passed = set()
for tc in ET.parse(out).getroot().iter("testcase"):
    if not any(c.tag in ("failure", "error", "skipped") for c in tc):
        passed.add("%s::%s" % (tc.get("classname"), tc.get("name")))
missing = [t for t in b["stable_pass"] if t not in passed]
print("passed %d; baseline stable_pass %d; missing from passed: %d" % (len(passed), len(b["stable_pass"]), len(missing)))
for t in missing[:20]:
    print("  MISSING", t)
sys.exit(1 if missing else 0)
