#!/bin/sh
# usage: tools/verify_seeded.sh <id> <dir with patch.diff demo.py notes.md>
# Confirms in a fresh scratch worktree of /repo HEAD: patch applies, demo passes without and fails with
# the change, and the pinned suite still passes with it.  Writes /tmp/vs-<id>.result ; removes the worktree.
id=$1; src=$2; wt=/tmp/vs-$id
git -C /repo worktree remove --force $wt 2>/dev/null; rm -rf $wt
git -C /repo worktree add -q $wt HEAD || exit 2
mkdir -p $wt/_out; cp $src/demo.py $wt/_out/
cd $wt; export PYTHONPATH=$wt
( /venv/bin/python _out/demo.py > /tmp/vs-$id.demo0.log 2>&1; echo "demo_without=$?" ) > /tmp/vs-$id.result
if git apply $src/patch.diff; then echo "applies=yes" >> /tmp/vs-$id.result; else echo "applies=no" >> /tmp/vs-$id.result; fi
( /venv/bin/python _out/demo.py > /tmp/vs-$id.demo1.log 2>&1; echo "demo_with=$?" ) >> /tmp/vs-$id.result
VERIF_REPO=$wt /venv/bin/python /verif/tools/baseline_compare.py /tmp/vs-$id.junit.xml > /tmp/vs-$id.suite.log 2>&1
echo "suite_rc=$?" >> /tmp/vs-$id.result
tail -3 /tmp/vs-$id.suite.log >> /tmp/vs-$id.result
cd /; git -C /repo worktree remove --force $wt; rm -rf $wt
