"""Merges the result files of several `./check selftest mutants ... --out=<name>` runs into
selftest/mutants.json (later files override earlier entries for the same mutant and property)."""
import json
import os
import sys

here = os.path.dirname(os.path.dirname(os.path.abspath(__file__)))
res = {}
trees = []
for p in sys.argv[1:]:
    d = json.load(open(p))
    trees.append(d.get("repo_tree"))
    for r in d["results"]:
        r = dict(r)
        r["from"] = os.path.basename(p)
        res[(r["mutant"], r.get("property"))] = r
out = {"repo_tree": trees[-1] if trees else None, "merged_from": [os.path.basename(p) for p in sys.argv[1:]],
       "results": [res[k] for k in sorted(res, key=lambda k: (k[0], str(k[1])))]}
killed = sum(1 for r in out["results"] if r.get("killed"))
out["summary"] = {"check_runs": len(out["results"]), "killed": killed,
                  "survived": [[r["mutant"], r.get("property")] for r in out["results"] if not r.get("killed")]}
json.dump(out, open(os.path.join(here, "selftest", "mutants.json"), "w"), indent=1)
print(out["summary"])
