"""Regenerates MANIFEST.json from the table below (so it stays valid at all times)."""
import json, os, sys
sys.path.insert(0, os.path.dirname(os.path.dirname(os.path.abspath(__file__))))
ALL = ["C%02d" % i for i in range(1, 21)]
TECH = "deterministic simulation with fault injection: real library + real concurrent.futures code on simulated threading primitives, baton-passing real threads under a seeded scheduler (uniform / sticky / PCT / bounded pre-emption / race-directed / site-directed / placement strategies; pre-emption at synchronisation operations, line starts and loop back-edges via sys.monitoring), virtual clock with late timer wake-ups and thread stalls, scripted delegate and user-code faults, history oracles, replay files"
CHECKS = {
 "C01": {
  "text": "Seeded search over stacks (depth 1-6, all layer types and orders) x outcome scripts x submitter threads x schedules; every non-cancelled future is compared with a sequential reference evaluation (value equality, exception identity, invocation count, argument integrity). Evidence of absence over the explored runs, not proof.",
  "note": "Reference model harness/model.py written from the documented semantics; futures touched by cancel() are exempt (C06); paths where an error_fn turns a library-made TypeError text into a value are not predicted (skipped).",
  "design": "10 (C01), 4"},
 "C02": {
  "text": "Seeded search over producers (every executor class and f_* combinator) x endings (value, exception, cancel through / behind the future) x multi-threaded histories of cancel / add_done_callback / result / exception / wait / as_completed / done x schedules; history oracles for single immutable outcome, the cancel() contract, exactly-once callbacks and release of blocked callers (in virtual time: a caller that returns only by its 1000 s timeout although the future was terminal long before is a violation).",
  "note": "Observations are intervals ordered by the simulator's global event sequence; asyncio futures excluded; a user's own raising callback on an already-done future is expected behaviour.",
  "design": "10 (C02)"},
 "C03": {
  "text": "Seeded search over three workload families (sequential timing against an exact model bound in virtual time; concurrent clients with cancels and cancellation behind the library's back; f_* combinators with inputs finished by other threads). Oracles: nothing pending once all underlying work is terminal; completion no later than configured delays imply (detects lost wake-ups that real-time tests convert into slow passes).",
  "note": "Virtual clock ticks on every read (slack = 20 ms + reads x tick); executors not shut down; promptness oracle only in stall-free runs.",
  "design": "10 (C03), 3.2"},
 "C04": {
  "text": "Seeded search over schedules x client programs x executor stacks; the scheduler itself decides deadlock (wait-for cycle among lock waiters, lock held forever by a thread that is blocked forever, busy-wait livelock holding a lock), so every explored execution is decided exactly; unexplored interleavings are not covered.",
  "note": "Simulated Lock/RLock/Condition/Event/Semaphore/SimpleQueue/Thread mirror CPython 3.12 semantics; line-granular pre-emption under the GIL; nested code only submits; shutdown from one thread.",
  "design": "10 (C04), 3, 5"},
 "C05": {
  "text": "Seeded search over policies (ExceptionRetryPolicy parameters, custom policies retrying on results or raising at call k) x outcome scripts x 1-4 concurrent submissions x delegates x schedules, in virtual time: attempts never overlap, the policy is consulted once per finished attempt with attempts 1,2,3..., attempt k+1 starts no earlier than the delay and - with a free worker and no stall - within 5 ms of it, exact invocation counts and delays, no done()/callback before the final attempt ended, final outcome identity.",
  "note": "The recording policy subclasses the library's ExceptionRetryPolicy (real back-off code); delays of 0-2.5 s (and 1000 s) cost nothing in virtual time; submissions still pending when a stall-heavy run ends are left to C03.",
  "design": "10 (C05)"},
 "C06": {
  "text": "Seeded search over stacks (spy delegate / real pool) and f_* combinators with cancel() issued 1-3 times from 1-2 threads at drawn points of each future's life x schedules (line-level pre-emption puts cancels inside hand-over windows). History oracles: nothing starts or is re-submitted after a True cancel, False while running then normal completion, no RetryExecutor re-submission after any cancel() returned, forwarding to the innermost pending work (spy records), never through f_nocancel.",
  "note": "Instance-level submit taps and spy futures observe hand-overs; a harness-side probe on ThrottleFuture._set_delegate only refines the signature of known finding F12; poll-stage cancels may succeed after the callable finished.",
  "design": "10 (C06)"},
 "C07": {
  "text": "Seeded search over counts {0,1,2,5,None, changing callable, raising callable} x blocking/non-blocking x 1-3 submitter threads x completion orders x cancels of queued futures x schedules, over a scripted 8-worker delegate. Oracles: admission safety at every hand-over against the value most recently returned to the hand-over thread (last good value if it raised), FIFO by real-time precedence of submit calls, no hand-over / blocked submit released only by a 2 s / 30 s fallback timer while the (static) configuration already allowed progress - exact because at a virtual clock jump nobody is runnable -, submit() works for every count in blocking mode.",
  "note": "A future counts as in flight until set_result (or a successful cancel) has begun - conservative for the safety oracle; dynamic counts are exempt from the promptness oracle as the property allows; blocking with count 0 excluded.",
  "design": "10 (C07)"},
 "C08": {
  "text": "Seeded search over numbers of polled futures x delegate completion times and failures x per-call poll-function behaviour (yield result / exception / twice / never after k sightings, raise at call k, odd intervals, taking virtual time) x cancel-function behaviour x cancel()/notify() from other threads placed inside windows by semantic triggers x schedules. Oracles by interval reasoning over the simulator's global event sequence: no overlapping poll calls, descriptor set between the must-include and may-include sets, result carried, first effective yield wins, a raising call fails exactly what it was shown, prompt poll after eligibility / notify (virtual time, stall-free), cancel-function contract.",
  "note": "Membership is judged against [end of previous call, entry of this call] because the snapshot-to-call window is inherent in the design; a yield that lost the race to a cancel() is not a resolving call.",
  "design": "10 (C08)"},
 "C09": {
  "text": "Seeded search over sets of 1-6 futures with default and per-call timeouts (0.05-120 s) submitted at drawn virtual times from 1-3 threads, work ending before / at / after the deadline or never, TimeoutExecutor and f_timeout, x schedules. Every cancel() reaching a returned future is recorded by an instance-level spy; oracles in exact virtual time: none before submit-invocation + timeout, exactly one for a future not done at its deadline and no later than submit-return + timeout + 5 ms, none for futures done before, outcome unchanged.",
  "note": "120 s deadlines cost microseconds; the future's done-ness at the deadline is an interval [work end, set_result returned] - ambiguous cases are boundary cases; under injected stalls only 'never early' and 'at most once' are judged.",
  "design": "10 (C09)"},
 "C10": {
  "text": "Seeded search over 1-3 submitter threads racing the one shutdown() call (placed by semantic triggers and drawn times), earlier futures pending / running / done, done-callbacks that submit again, x schedules with line-level pre-emption inside submit() and shutdown(). Oracle over the history: every future a submit() returned that was certainly pending throughout the shutdown() call received exactly one cancel() from the shutdown thread inside that call; at most one in every case; the wrapped executor was shut down inside the call; deadlocks are reported with their cycle.",
  "note": "Spy delegate futures record each cancel() with the calling thread; futures whose done-ness changes during the sweep may see 0 or 1.",
  "design": "10 (C10)"},
 "C11": {
  "text": "Seeded search over stacks (1-3 layers of any type, optional AsyncioExecutor on top) over a spy base that records shutdown(*args, **kwargs), workload states at shutdown time (idle, queued, between retries with 1000 s sleeps, polling with 50 s intervals, callable running), racing submitters released by a semantic trigger at shutdown entry, wait True/False, cancel_futures present/absent, repeated shutdown, x schedules. Oracles: refusal with the documented RuntimeError afterwards on every executor of the chain, exactly one shutdown at the base with the same arguments, worker threads gone when shutdown(wait=True) returns, it returns (deadlock / hang detection) and does not wait out a sleep or interval (virtual time), racing submits raise that error or return a future.",
  "note": "Thread liveness is read from the simulator's thread table at the moment shutdown() returns.",
  "design": "10 (C11)"},
 "C12": {
  "text": "Seeded search over thread-owning executors (retry, poll, throttle, timeout, thread pool, the shared f_timeout executor; map and cancel-on-shutdown as thread-less controls) x histories of completed / failed / cancelled-in-flight / cancelled-while-queued futures x trigger (shutdown, dropping the last reference with futures dropped / kept / still pending, interpreter-exit hook) at a drawn moment relative to the worker loop x schedules with line-level pre-emption. Oracles: after futures are done and dropped, an explicit gc.collect() leaves no future, callable, argument or result alive (weak references only in the harness) and the executor still serves; every worker thread is gone within 60 virtual seconds of the trigger; futures pending when the executor is dropped still complete with the right outcome.",
  "note": "gc is disabled during a run and invoked at scheduled points (deterministic weakref callbacks); other threads are given a virtual second to finish the iteration they are in before retention is judged; a failed future kept by the user may pin frames through its traceback (Python semantics) and is excluded from the kept-futures variant.",
  "design": "10 (C12)"},
 "C18": {
  "text": "Seeded search over stacks (depth 1-4) x fault plans over every user-code call site (callable, map / error / flat-map function, poll function at call k, cancel function, should_retry / sleep_time at attempt k, throttle count callable at call k, done-callback) x concurrent cancels (also placed around the policy evaluation by semantic triggers) x schedules; plus a directed family hammering a RetryExecutor whose policy retries results. Oracles: no library-created thread ends with an exception, nothing but scripted outcomes escapes from cancel / add_done_callback / result / submit, untargeted futures still match the sequential reference, and a fault-free probe submission is served afterwards within its model bound.",
  "note": "Runs in which the poll function raised are exempt from the outcome comparison (the set of futures it was shown is schedule-dependent; C08 judges it).",
  "design": "10 (C18)"},
 "C20": {
  "text": "Seeded search over named stacks and histories mixing completion, failure, cancel while queued / between retries / in flight, a firing timeout layer, poll-function errors and an optional final shutdown x schedules, with a stub prometheus_client that records value and running minimum per label set. At quiescence: future_inprogress, retry_queue, throttle_queue are 0 when everything is terminal; exec_inprogress equals executors built minus shut down; no gauge ever negative; future_total / future_cancel / future_error of the top-level type, retry_total (delegate re-submissions seen by a submit tap), poll_total and poll_error equal the history's counts.",
  "note": "prometheus_client is absent from the sandbox: the stub implements Counter/Gauge labels().inc()/dec() only; *_time sums only checked >= 0; inner-layer counters are checked where the history determines them.",
  "design": "10 (C20)"},
 "C13": {
  "text": "Seeded search over chains of 1-4 map / flat_map steps in executor form and f_* form x input outcomes (value, exception; already done or completed by another thread) x scripted fn / error_fn behaviours (return, raise new, re-raise same, return None, return a future that is done / failed / cancelled / pending and completed by a third thread, return a non-future, omitted) x an output cancel racing the input x schedules. Oracles: sequential reference outcome with exception identity and original traceback frames, TypeError for non-futures, fn / error_fn called at most once and only for their case, identity when omitted, and the composed function evaluated in the same run (composition law).",
  "note": "User functions contain explicit pre-emption points; the input-space part of the property (all values) is sampled, not enumerated.",
  "design": "10 (C13)"},
 "C14": {
  "text": "Seeded search over f_or / f_and with 1-5 inputs (plain, library, f_nocancel-wrapped, duplicates; some already finished at construction) x outcome assignments (truthy / falsy objects of several types, exception, cancellation, never) x 1-3 completer threads x an output cancel x schedules. Oracle: completions are intervals in the simulator's event sequence; every total order consistent with real-time precedence is enumerated (n <= 5) and the output must equal the fold of one of them, by object identity; pending losers receive cancel(), f_nocancel shields hold, a single input is returned as is, completing an input never raises out of the combinator's callback.",
  "note": "Inputs finished before the combinator was built are mutually unordered (the library observes them in argument order).",
  "design": "10 (C14)"},
 "C15": {
  "text": "Seeded search over f_zip / f_sequence / f_traverse with 0-6 inputs (plain and library futures, duplicates, generators; one 2000-input case per few thousand thorough runs) x outcome assignments (value, exception, cancelled, never) x 1-3 completer threads (some inputs already done) x an output cancel x schedules. Oracles: results in input order by object identity and the right container type, on failure the exception / cancellation of an input that can be first in some order consistent with real time, output cancel reaches every pending input, f_traverse calls fn once per element in iteration order and propagates its exception.",
  "note": "Completions are intervals in the simulator's event sequence; inputs finished before construction are mutually unordered.",
  "design": "10 (C15)"},
 "C16": {
  "text": "Seeded search over arities (0-4 positional, 0-3 keyword argument futures plus the function future; plain and library futures) x completion orders by 1-3 threads (some inputs already done) x failing inputs at any position x a raising function x schedules. Oracles by object identity: the function is called exactly once, only after every input's completion had begun, with every positional argument in its position and every keyword under its own name; the output is its return value or exception; with failing inputs the output carries one of their exceptions and the function ran at most once.",
  "note": "Which of several failing inputs wins is left open, as the property does.",
  "design": "10 (C16)"},
 "C17": {
  "text": "Scoped to the schedule / time facets: seeded search over a fixed table of (forwarded operation, value) pairs - every forwarded dunder and attribute / method access, including pairs for which the operation raises - and the non-forwarded operations (bool, repr, str, ==, hash, unknown dunder lookups), applied to f_proxy(f) with f resolved, failed, or pending and resolved by another thread at a scheduler-chosen point, with and without timeout=tau; and f_nocancel wrappers raced by repeated cancel() and the inner completion. Oracles: same value or exception type as the operation on f.result(), f's own exception if it failed, blocking until resolution, TimeoutError at t0+tau (never earlier, within 5 ms in virtual time), non-forwarded operations return without virtual time passing, f_nocancel.cancel() always False with 0 cancels reaching f and the wrapper mirroring f's outcome.",
  "note": "'for all operand values across the builtin types' is an input-space claim: the table samples it and is not presented as coverage of it.",
  "design": "10 (C17)"},
 "C19": {
  "text": "Differential use of the simulator: seeded search over with_* chains (0-4 layers of any type, explicit / inherited names), applied to the executor and - split at a drawn point - before and after bind(fn) / flat_bind(fn), over fresh sync / thread-pool bases, with plain functions, partials and callable objects with scripted failures, in the same simulated run. Oracles: same terminal outcome and invocation count on both sides, flat_bind flattens, and every thread created by a layer (observed at the Thread seam) carries the inherited or overridden name on both sides, as does the thread pool's prefix.",
  "note": "Mostly a programs x inputs property; no schedule-dependent claim is made beyond exact repeatable comparison for chains with worker threads and timers, and the thread-name observation point.",
  "design": "10 (C19)"},
}
def main():
    checks = []
    for pid in ALL:
        if pid not in CHECKS:
            continue
        c = CHECKS[pid]
        checks.append({
            "property_id": pid,
            "quick_cmd": "./check %s --tier quick" % pid,
            "thorough_cmd": "./check %s --tier thorough" % pid,
            "evidence_file": "/verif/evidence/%s.json" % pid,
            "replay_cmd_template": "./check %s --replay {path}" % pid,
            "engine": "simcheck",
            "level_claimed": {"category": "exploration", "text": c["text"], "design_ref": "DESIGN.md section " + c["design"]},
            "level_note": c["note"],
            "technique": TECH,
        })
    na = [{"property_id": p, "reason": "check not built yet in this revision of /verif (work in progress; the design in DESIGN.md section 10 claims it)"}
          for p in ALL if p not in CHECKS]
    m = {
        "version": 1,
        "setup_cmd": "./check selftest setup",
        "hooks": {"guard": "MORE_EXECUTORS_VERIF", "enable": "no source hooks are needed: all seams are applied from /verif by rebinding module globals (DESIGN.md 3.4); the guard name is reserved and unused",
                  "baseline_off_cmd": "cd /repo && /venv/bin/python -m pytest -ra -q -p no:cacheprovider --timeout=900 --continue-on-collection-errors --junitxml=/tmp/verif-baseline.junit.xml",
                  "source_commits": [], "add_only": True},
        "engines": [{"name": "simcheck", "path": "/verif/simcheck.py", "serves_properties": sorted(CHECKS),
                     "kind_free_text": "deterministic simulator (sim/), workload drivers and oracles (harness/, props/), runner with replay + minimisation + known-findings"}],
        "checks": checks,
        "notes": "Exit codes: 0 held (possibly KNOWN-FINDING lines), 1 VIOLATION with verified replay, 2 harness error. VERIF_SEED, VERIF_JOBS, VERIF_RUNS, VERIF_BUDGET_S, VERIF_REPO are honoured.",
        "not_applicable": na,
    }
    with open(os.path.join(os.path.dirname(os.path.dirname(os.path.abspath(__file__))), "MANIFEST.json"), "w") as f:
        json.dump(m, f, indent=1)
    import jsonschema
    jsonschema.validate(m, json.load(open("/root/.vp/MANIFEST.schema.json")))
    print("MANIFEST ok:", len(checks), "checks,", len(na), "not yet claimed")
main()
