#!/bin/sh
# usage: tools/soak.sh <first seed> <last seed> [tier]   - runs every check under several VERIF_SEED values, prints one line per run
a=$1; b=$2; tier=${3:-quick}
export VERIF_EVIDENCE_DIR=${VERIF_EVIDENCE_DIR:-/tmp/verif-soak-ev} VERIF_REPLAY_DIR=${VERIF_REPLAY_DIR:-$PWD/soak-replays}
s=$a
while [ $s -le $b ]; do
  for p in C01 C02 C03 C04 C05 C06 C07 C08 C09 C10 C11 C12 C13 C14 C15 C16 C17 C18 C19 C20; do
    out=$(VERIF_SEED=$s ./check $p --tier $tier 2>&1); rc=$?
    echo "seed=$s $p rc=$rc $(echo "$out" | tail -1 | cut -c1-150)"
    if [ $rc -ne 0 ]; then echo "$out" | grep -E "VIOLATION|HARNESS|signature" | cut -c1-400; fi
  done
  s=$((s+1))
done
