"""dev helper: replay a file twice in-process and in a child; print where logs diverge"""
import sys, os, json
sys.path.insert(0, os.path.dirname(os.path.dirname(os.path.abspath(__file__))))
from harness import runner
rp = json.load(open(sys.argv[1]))
mod = runner.load_prop(rp["property"])
r1 = runner.execute(mod, rp["spec"], trace=rp.get("trace"), stalls=rp.get("stalls"))
r2 = runner.execute(mod, rp["spec"], trace=rp.get("trace"), stalls=rp.get("stalls"))
print("sha1", r1.sha[:12], "sha2", r2.sha[:12], "expect", rp["expect"]["sha"][:12], r1.harness_error)
for i, (a, b) in enumerate(zip(r1.sim.log, r2.sim.log)):
    if a != b:
        print("DIVERGE at", i, "\n ", a, "\n ", b); break
if "--log" in sys.argv:
    n = int(sys.argv[sys.argv.index("--log") + 1])
    for e in r1.sim.log[:n]:
        print("  ", str(e)[:400])
    print("outcome", r1.outcome, "viol", [v["msg"][:300] for v in r1.viol])
if "--dump" in sys.argv:
    json.dump([list(map(str, e)) for e in r1.sim.log], open(sys.argv[sys.argv.index("--dump") + 1], "w"))
print("BLOCKED", r1.sim.final_blocked)
if "--stacks" in sys.argv:
    # stacks of live threads at the end are only captured for abnormal ends; re-run capturing always
    pass
