#!/bin/sh
# usage: tools/regen_finding_replays.sh
# Regenerates the committed replay files of the open findings (findings/replays/*.json) from a
# fresh exploration of the current tree with the known-findings file ignored: exact decision
# traces go stale whenever the set of pre-emption points or a workload generator changes.
cd /verif || exit 2
tmp=/tmp/regen-rp-$$; rm -rf $tmp; mkdir -p $tmp
VERIF_IGNORE_KNOWN=1 VERIF_REPLAY_DIR=$tmp VERIF_EVIDENCE_DIR=$tmp/ev VERIF_MIN_S=60 ./check C04 --tier quick > $tmp/c04.log 2>&1
VERIF_IGNORE_KNOWN=1 VERIF_REPLAY_DIR=$tmp VERIF_EVIDENCE_DIR=$tmp/ev VERIF_MIN_S=60 ./check C06 --tier quick > $tmp/c06.log 2>&1
/venv/bin/python - $tmp <<'PY'
import glob, json, re, shutil, sys
tmp = sys.argv[1]
want = {"C04": (re.compile(r"^(deadlock|lock-held-forever|spin-holding-lock|client-blocked)\|.*\[via retry\._submit_now"), "findings/replays/C04-F5b.json"),
        "C06": (re.compile(r"^not-forwarded\|False\|throttle-handover-window$"), "findings/replays/C06-F12.json")}
for prop, (pat, dest) in want.items():
    best = None
    for p in glob.glob("%s/%s-*.json" % (tmp, prop)):
        d = json.load(open(p))
        if pat.search(d["expect"]["sig"]):
            if best is None or len(d.get("history", [])) < len(best[1].get("history", [])):
                best = (p, d)
    if best is None:
        print("no replay found for", prop)
        continue
    d = best[1]
    d["how_to_replay"] = "cd /verif && ./check %s --replay %s" % (prop, dest)
    json.dump(d, open("/verif/" + dest, "w"), indent=1)
    print("wrote", dest, d["expect"]["sig"][:120])
PY
rm -rf $tmp
