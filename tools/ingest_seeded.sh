#!/bin/sh
# usage: tools/ingest_seeded.sh <P> <n>   (agent output in /tmp/wt-<P>/_out)
# copies the agent's output aside, removes its worktree, confirms the change in a fresh worktree
# (tools/verify_seeded.sh) and stores patch/demo/notes under seeded/<P>-<n>/ (meta.json is written by hand).
P=$1; n=$2; id=$P-$n; src=/tmp/seed-$id
rm -rf $src; mkdir -p $src
cp /tmp/wt-$P/_out/patch.diff /tmp/wt-$P/_out/demo.py /tmp/wt-$P/_out/notes.md $src/ || exit 2
git -C /repo worktree remove --force /tmp/wt-$P; rm -rf /tmp/wt-$P
/verif/tools/verify_seeded.sh $id $src
cat /tmp/vs-$id.result
mkdir -p /verif/seeded/$id
cp $src/patch.diff $src/demo.py $src/notes.md /verif/seeded/$id/
