"""Create /verif/mutants/<name>.patch from a (file, old, new) edit against /repo's working tree.
usage (python): mk(name, relpath, old, new)"""
import difflib, os, sys
REPO = "/repo"
def mk(name, rel, old, new, count=1):
    p = os.path.join(REPO, rel)
    s = open(p).read()
    assert s.count(old) >= 1, (name, "pattern not found")
    t = s.replace(old, new, count)
    d = difflib.unified_diff(s.splitlines(True), t.splitlines(True), "a/" + rel, "b/" + rel)
    open(os.path.join("/verif/mutants", name + ".patch"), "w").write("".join(d))
    print("wrote", name)
if __name__ == "__main__":
    R = "more_executors/_impl/"
    # C01
    mk("c01-retry-callback-matches-any-done-delegate", R + "retry.py", "if job.delegate_future == delegate_future:", "if job.delegate_future is not None and job.delegate_future.done():")
    mk("c01-flatmap-keeps-fn-after-flatten", R + "flat_map.py", "        self._map_fn = lambda x: x\n", "")
    mk("c01-retry-no-pop-before-resubmit", R + "retry.py", "                self._pop_job(job)\n\n                # We need the future's lock now too", "                # We need the future's lock now too")
    # C02
    mk("c02-cancel-no-notify", R + "common.py", "            if out:\n                self.set_running_or_notify_cancel()\n        if out:\n            self._me_invoke_callbacks()\n        return out\n\n    def _me_delegate_cancelled", "        if out:\n            self._me_invoke_callbacks()\n        return out\n\n    def _me_delegate_cancelled")
    mk("c02-add-done-callback-no-lock", R + "common.py", "        with self._me_lock:\n            if not self.done():\n                self._me_done_callbacks.append(fn)\n                return\n", "        if not self.done():\n            self._me_done_callbacks.append(fn)\n            return\n")
    # C03
    mk("c03-retry-retry-no-wake", R + "retry.py", "            new_job.stop_retry = job.stop_retry\n            self._append_job(new_job)\n\n        self._wake_thread()", "            new_job.stop_retry = job.stop_retry\n            self._append_job(new_job)\n")
    mk("c03-poll-register-no-set", R + "poll.py", "            future._clear_delegate()\n            self._poll_event.set()", "            future._clear_delegate()")
    mk("c03-zip-ignores-cancelled-input", "more_executors/_impl/futures/zip.py", "            elif f.cancelled():\n                self.done = True\n                cancel = True\n", "            elif f.cancelled():\n                pass\n")
    mk("c03-map-ignores-cancelled-delegate", R + "map.py", "            self._me_delegate_cancelled()\n            return\n\n        ex = delegate.exception()", "            return\n\n        ex = delegate.exception()")
    mk("c03-throttle-done-no-set", R + "throttle.py", "        running_count.decr()\n        event.set()", "        running_count.decr()")
    # C04
    mk("c04-retry-cancel-lock-order", R + "retry.py", "    def _me_cancel(self):\n        executor = self._executor\n        return executor and executor._cancel(self)", "    def _me_cancel(self):\n        executor = self._executor\n        if not executor:\n            return executor\n        self._me_lock.release()\n        try:\n            with executor._lock:\n                with self._me_lock:\n                    return executor._cancel(self)\n        finally:\n            self._me_lock.acquire()")
    mk("c04-gate-not-reentrant", R + "helpers.py", "from threading import RLock\n", "from threading import Lock as RLock\n")
    mk("c04-cos-shutdown-lock-then-gate", R + "cancel_on_shutdown.py", "        if not self._shutdown():\n            return\n        metrics.EXEC_INPROGRESS.labels(\n            type=\"cancel_on_shutdown\", executor=self._name\n        ).dec()\n        with self._lock:\n            futures = self._futures.copy()\n", "        with self._lock:\n            if not self._shutdown():\n                return\n            metrics.EXEC_INPROGRESS.labels(\n                type=\"cancel_on_shutdown\", executor=self._name\n            ).dec()\n            futures = self._futures.copy()\n")
    # C06
    mk("c06-submit-now-no-done-recheck", R + "retry.py", "                if job.future.done():\n                    self._log.debug(\n                        \"future done %s - not submitting to delegate\", job.future\n                    )\n                    return\n", "")
    mk("c06-retry-drops-stop-retry", R + "retry.py", "            new_job.stop_retry = job.stop_retry\n", "")
    mk("c06-throttle-cancel-true-without-removing", R + "throttle.py", "                if job.future is future:\n                    self._to_submit.remove(job)\n", "                if job.future is future:\n")
    # C05
    mk("c05-sleep-time-attempt-off-by-one", R + "retry.py", "self._exponent ** (attempt - 1)", "self._exponent ** attempt")
    mk("c05-max-attempts-gt", R + "retry.py", "if attempt >= self._max_attempts:", "if attempt > self._max_attempts:")
    mk("c05-retry-no-delay", R + "retry.py", "                monotonic() + sleep_time,", "                monotonic(),")
    mk("c05-policy-evaluated-twice", R + "retry.py", "        (should_retry, sleep_time) = eval_policy(found_job, self._log)\n", "        (should_retry, sleep_time) = eval_policy(found_job, self._log)\n        if should_retry:\n            (should_retry, sleep_time) = eval_policy(found_job, self._log)\n")
    mk("c05-resolve-before-policy", R + "retry.py", "        (should_retry, sleep_time) = eval_policy(found_job, self._log)\n\n        if should_retry:", "        if not delegate_future.exception():\n            copy_future(delegate_future, found_job.future)\n            self._pop_job(found_job)\n            return\n\n        (should_retry, sleep_time) = eval_policy(found_job, self._log)\n\n        if should_retry:")
    mk("c05-get-next-job-ignores-when-order", R + "retry.py", "            elif job.when < min_job.when:\n                min_job = job", "            elif job.when > min_job.when:\n                min_job = job")
    # C08
    mk("c08-deregister-noop", R + "poll.py", "    def _deregister_poll(self, future):\n        with self._lock:\n            self._poll_descriptors = [\n                (f, d) for (f, d) in self._poll_descriptors if f is not future\n            ]", "    def _deregister_poll(self, future):\n        return")
    mk("c08-snapshot-without-lock-twice", R + "poll.py", "        with self._lock:\n            descriptors = [d for (_, d) in self._poll_descriptors]\n", "        descriptors = [d for (_, d) in self._poll_descriptors + self._poll_descriptors[:1]]\n")
    mk("c08-register-no-set", R + "poll.py", "            future._clear_delegate()\n            self._poll_event.set()", "            future._clear_delegate()")
    mk("c08-notify-noop", R + "poll.py", "        .. versionadded:: 2.2.0\n        \"\"\"\n        self._poll_event.set()", "        .. versionadded:: 2.2.0\n        \"\"\"\n        pass")
    mk("c08-cancel-fn-exception-means-true", R + "poll.py", "                \"Exception during cancel on %s/%s\", future, descriptor.result\n            )\n            return False", "                \"Exception during cancel on %s/%s\", future, descriptor.result\n            )\n            return True")
    mk("c08-poll-error-fails-all-registered", R + "poll.py", "            [d.yield_exception(e) for d in descriptors]", "            [d.yield_exception(e) for (_, d) in self._poll_descriptors]")
    mk("c08-pollfuture-init-order", R + "poll.py", "        self.add_done_callback(self._clear_executor)\n        self._delegate.add_done_callback(self._delegate_resolved)\n", "        self._delegate.add_done_callback(self._delegate_resolved)\n        self.add_done_callback(self._clear_executor)\n")
    # C09
    mk("c09-deadline-plus-one", R + "timeout.py", "            elif job.deadline < now:", "            elif job.deadline < now + 1:")
    mk("c09-submit-no-wake", R + "timeout.py", "                self._jobs.append(job)\n            self._jobs_write.set()", "                self._jobs.append(job)")
    mk("c09-keep-overdue-jobs", R + "timeout.py", "            executor._jobs = pending\n", "            executor._jobs = pending + overdue\n")
    mk("c09-min-to-max", R + "timeout.py", "earliest = min([job.deadline for job in pending])", "earliest = max([job.deadline for job in pending])")
    mk("c09-deadline-from-default", R + "timeout.py", "job = Job(future, delegate_future, monotonic() + timeout)", "job = Job(future, delegate_future, monotonic() + (self._timeout or timeout))")
    mk("c09-wait-time-not-recomputed-on-done", R + "timeout.py", "            elif job.deadline < now:\n                overdue.append(job)", "            elif job.deadline <= now + 0.03:\n                overdue.append(job)")
    # C10
    mk("c10-register-after-gate", R + "cancel_on_shutdown.py", "        with self._shutdown.ensure_alive():\n            with self._lock:\n                future = self._delegate.submit(*args, **kwargs)\n                self._futures.add(future)\n                future.add_done_callback(self._futures.discard)\n            return future", "        with self._shutdown.ensure_alive():\n            future = self._delegate.submit(*args, **kwargs)\n        with self._lock:\n            self._futures.add(future)\n            future.add_done_callback(self._futures.discard)\n        return future")
    mk("c10-snapshot-before-flag", R + "cancel_on_shutdown.py", "        if not self._shutdown():\n            return\n        metrics.EXEC_INPROGRESS.labels(\n            type=\"cancel_on_shutdown\", executor=self._name\n        ).dec()\n        with self._lock:\n            futures = self._futures.copy()\n", "        with self._lock:\n            futures = self._futures.copy()\n        if not self._shutdown():\n            return\n        metrics.EXEC_INPROGRESS.labels(\n            type=\"cancel_on_shutdown\", executor=self._name\n        ).dec()\n")
    mk("c10-no-delegate-shutdown-when-empty", R + "cancel_on_shutdown.py", "        self._delegate.shutdown(wait, **_kwargs)", "        if futures or wait:\n            self._delegate.shutdown(wait, **_kwargs)")
    # C11
    mk("c11-retry-no-join", R + "retry.py", "            if wait:\n                self._log.debug(\"Waiting for thread\")\n                self._submit_thread.join(MAX_TIMEOUT)", "            if wait and False:\n                self._submit_thread.join(MAX_TIMEOUT)")
    mk("c11-poll-drops-kwargs", R + "poll.py", "            self._poll_event.set()\n            self._delegate.shutdown(wait, **_kwargs)", "            self._poll_event.set()\n            self._delegate.shutdown(wait)")
    mk("c11-throttle-loop-no-flag-test", R + "throttle.py", "    if executor._shutdown.is_shutdown or is_shutdown():\n        return\n\n    throttle = executor._eval_throttle()", "    if is_shutdown():\n        return\n\n    throttle = executor._eval_throttle()")
    mk("c11-map-shutdown-not-idempotent", R + "map.py", "        if self._shutdown():\n            self._metric_exec_inprogress.dec()\n            self._delegate.shutdown(wait, **_kwargs)", "        if self._shutdown() or True:\n            self._delegate.shutdown(wait, **_kwargs)")
    mk("c11-timeout-wait-ignored", R + "timeout.py", "            self._delegate.shutdown(wait, **_kwargs)\n            if wait:\n                self._job_thread.join(MAX_TIMEOUT)", "            self._delegate.shutdown(True, **_kwargs)\n            if wait:\n                self._job_thread.join(MAX_TIMEOUT)")
    mk("c11-retry-shutdown-no-wake", R + "retry.py", "            metrics.EXEC_INPROGRESS.labels(executor=self._name, type=\"retry\").dec()\n            self._wake_thread()", "            metrics.EXEC_INPROGRESS.labels(executor=self._name, type=\"retry\").dec()")
    mk("c11-cos-submit-wrong-message", R + "helpers.py", "raise RuntimeError(\"cannot schedule new futures after shutdown\")", "raise RuntimeError(\"cannot schedule new futures after interpreter shutdown\")")
    # C12
    mk("c12-retry-loop-keeps-executor-ref", R + "retry.py", "            event = executor._submit_event\n            del executor\n            _submit_wait(event)\n            continue", "            event = executor._submit_event\n            _submit_wait(event)\n            continue")
    mk("c12-retry-cancelled-job-not-popped", R + "retry.py", "            self._pop_job(found_job)\n            found_job.future._me_delegate_cancelled()", "            found_job.future._me_delegate_cancelled()")
    mk("c12-callbacks-kept-after-invoke", R + "common.py", "        # Drop references to the callbacks once no longer required,\n        # so that futures don't keep other objects alive longer than needed\n        self._me_done_callbacks = []", "        pass")
    mk("c12-throttle-thread-strong-self", R + "throttle.py", "            name=\"ThrottleExecutor-%s\" % name, target=_submit_loop, args=(self_ref,)", "            name=\"ThrottleExecutor-%s\" % name, target=_submit_loop, args=(lambda: self,)")
    mk("c12-cos-discard-before-add", R + "cancel_on_shutdown.py", "                self._futures.add(future)\n                future.add_done_callback(self._futures.discard)", "                future.add_done_callback(self._futures.discard)\n                self._futures.add(future)")
    mk("c12-timeout-keeps-done-jobs", R + "timeout.py", "            if job.future.done():\n                self._log.debug(\"Discarding job for completed future: %s\", job)\n            elif", "            if job.future.done():\n                pending.append(job)\n            elif")
    mk("c12-poll-future-keeps-executor", R + "poll.py", "        future._executor._deregister_poll(future)\n        future._executor = None", "        future._executor._deregister_poll(future)")
    # C18
    mk("c18-policy-no-try", R + "retry.py", "        return (should_retry, sleep_time)\n    except Exception:\n        logger.exception(\"Exception while evaluating retry policy %r\", policy)\n        return (False, None)", "        return (should_retry, sleep_time)\n    except ZeroDivisionError:\n        logger.exception(\"Exception while evaluating retry policy %r\", policy)\n        return (False, None)")
    mk("c18-eval-throttle-reraises", R + "throttle.py", "            self._log.exception(\n                \"Error evaluating throttle count via %r\", self._throttle\n            )\n", "            self._log.exception(\n                \"Error evaluating throttle count via %r\", self._throttle\n            )\n            raise\n")
    mk("c18-invoke-callbacks-no-except", R + "common.py", "            try:\n                callback(self)\n            except Exception:\n                LOG.exception(\"exception calling callback for %r\", self)", "            callback(self)")
    mk("c18-retry-copy-future-strict", R + "retry.py", "        try_set_result(f2, result)\n", "        f2.set_result(result)\n")
    mk("c18-cancel-orphan-assert", R + "retry.py", "        if not found_job:\n", "        assert found_job, \"Cancel called on orphan %s\" % future\n        if not found_job:\n")
    mk("c18-poll-cancel-fn-no-try", R + "poll.py", "        try:\n            return self._cancel_fn(descriptor.result)\n        except Exception:", "        try:\n            return self._cancel_fn(descriptor.result)\n        except ZeroDivisionError:")
    mk("c18-poll-fn-error-not-caught", R + "poll.py", "        except Exception as e:\n            self._log.debug(\"Poll function failed\", exc_info=True)", "        except ZeroDivisionError as e:\n            self._log.debug(\"Poll function failed\", exc_info=True)")
    # C20
    mk("c20-retry-cancel-no-dec", R + "retry.py", "                        self._jobs.pop(idx)\n                        metrics.RETRY_QUEUE.labels(executor=self._name).dec()\n", "                        self._jobs.pop(idx)\n")
    mk("c20-throttle-cancel-no-dec", R + "throttle.py", "                    metrics.THROTTLE_QUEUE.labels(executor=self._name).dec()\n                    self._room_event.set()", "                    self._room_event.set()")
    mk("c20-retry-double-inc-on-requeue", R + "retry.py", "            metrics.RETRY_DELAY.labels(executor=self._name).inc(sleep_time)\n", "            metrics.RETRY_DELAY.labels(executor=self._name).inc(sleep_time)\n            metrics.RETRY_QUEUE.labels(executor=self._name).inc()\n")
    mk("c20-record-done-no-dec", R + "metrics/__init__.py", "    inprogress.dec()\n\n    run_time", "    if not f.cancelled():\n        inprogress.dec()\n\n    run_time")
    mk("c20-map-shutdown-no-dec", R + "map.py", "        if self._shutdown():\n            self._metric_exec_inprogress.dec()\n", "        if self._shutdown():\n")
    mk("c20-future-error-counts-cancel", R + "metrics/__init__.py", "    if f.cancelled():\n        cancelled.inc()\n    elif f.exception():\n        failed.inc()", "    if f.cancelled():\n        cancelled.inc()\n        failed.inc()\n    elif f.exception():\n        failed.inc()")
    mk("c20-retry-total-counts-first-attempt", R + "retry.py", "                if job.attempt != 0:\n                    metrics.RETRY_TOTAL", "                if job.attempt >= 0:\n                    metrics.RETRY_TOTAL")
    mk("c20-poll-error-not-counted", R + "poll.py", "            metrics.POLL_ERROR.labels(executor=self._name).inc()\n", "")
    mk("c20-cancelled-delegate-job-not-popped", R + "retry.py", "            self._pop_job(found_job)\n            found_job.future._me_delegate_cancelled()", "            found_job.future._me_delegate_cancelled()")
    # C13
    mk("c13-error-fn-on-success-too", R + "map.py", "        else:\n            result = delegate.result()\n            try:\n                result = self._map_fn(result)", "        else:\n            result = delegate.result()\n            try:\n                if self._error_fn is not None and self._map_fn is identity:\n                    result = self._error_fn(result)\n                result = self._map_fn(result)")
    mk("c13-reraise-same-branch-dropped", R + "map.py", "            if ex is inner_ex:\n                # fn raised exactly the same thing:\n                # then copy directly from the future\n                copy_future_exception(delegate, self)\n            else:", "            if False:\n                copy_future_exception(delegate, self)\n            else:\n                inner_ex = inner_ex.with_traceback(None)")
    mk("c13-flatten-keeps-map-fn", R + "flat_map.py", "        self._map_fn = lambda x: x\n", "")
    mk("c13-nonfuture-typeerror-swallowed", R + "flat_map.py", "        if not callable(getattr(result, \"add_done_callback\", None)):\n            raise TypeError(", "        if not callable(getattr(result, \"add_done_callback\", None)):\n            return super(FlatMapFuture, self)._on_mapped(result)\n            raise TypeError(")
    mk("c13-flatten-keeps-error-fn", R + "flat_map.py", "        self._error_fn = None\n", "")
    mk("c13-error-fn-result-ignored", R + "map.py", "            result = self._delegate_failed(delegate)\n            if self.done():\n                return", "            result = self._delegate_failed(delegate)\n            if self.done():\n                return\n            if result is None:\n                copy_future_exception(delegate, self)\n                return")
    mk("c13-map-fn-exception-replaced", R + "map.py", "            try:\n                result = self._map_fn(result)\n            except Exception:\n                copy_exception(self)\n                return", "            try:\n                result = self._map_fn(result)\n            except Exception as e:\n                copy_exception(self, type(e)(*e.args))\n                return")
    # C14
    mk("c14-handle-done-no-lock", "more_executors/_impl/futures/bool.py", "        with self.lock:\n            if self.done:\n                return\n", "        if True:\n            if self.done:\n                return\n")
    mk("c14-and-losers-not-cancelled-on-exception", "more_executors/_impl/futures/bool.py", "            # Failed => we're done\n            self.done = True\n            set_exception = True\n            cancel_futures = list(self.fs.keys())", "            # Failed => we're done\n            self.done = True\n            set_exception = True")
    mk("c14-or-last-falsy-takes-first", "more_executors/_impl/futures/bool.py", "        if (not self.fs) or (not f.cancelled() and not f.exception() and f.result()):", "        if (len(self.fs) <= 1 and not f.cancelled() and not f.exception()) or (not self.fs) or (not f.cancelled() and not f.exception() and f.result()):")
    mk("c14-dup-keyerror", "more_executors/_impl/futures/bool.py", "            self.fs.pop(f, None)\n", "            del self.fs[f]\n")
    mk("c14-and-cancelled-input-ignored", "more_executors/_impl/futures/bool.py", "        if f.cancelled():\n            # Cancelled => output is cancelled\n            self.done = True", "        if f.cancelled() and self.fs:\n            pass\n        elif f.cancelled():\n            # Cancelled => output is cancelled\n            self.done = True")
    mk("c14-single-input-wrapped", "more_executors/_impl/futures/bool.py", "    if not fs:\n        return f\n\n    oper = OrOperation", "    oper = OrOperation")
    # C07
    mk("c07-throttle-ge-to-gt", R + "throttle.py", "(executor._running_count.value >= throttle)", "(executor._running_count.value > throttle)")
    mk("c07-incr-after-submit", R + "throttle.py", "            executor._running_count.incr()\n            metrics.THROTTLE_QUEUE", "            metrics.THROTTLE_QUEUE")
    mk("c07-popleft-to-pop", R + "throttle.py", "job = executor._to_submit.popleft()", "job = executor._to_submit.pop()")
    mk("c07-eval-throttle-no-fallback", R + "throttle.py", "        except Exception:\n            self._log.exception(\n                \"Error evaluating throttle count via %r\", self._throttle\n            )\n\n        return self._last_throttle", "        except Exception:\n            self._log.exception(\n                \"Error evaluating throttle count via %r\", self._throttle\n            )\n            return None\n\n        return self._last_throttle")
    mk("c07-block-none-typeerror", R + "throttle.py", "            if throttle_val is None or len(self._to_submit) < throttle_val:", "            if len(self._to_submit) < throttle_val:")
    mk("c07-room-event-not-set-on-handover", R + "throttle.py", "    if to_submit:\n        executor._room_event.set()\n", "")
    mk("c07-done-callback-no-decr-before-set", R + "throttle.py", "        running_count.decr()\n        event.set()", "        event.set()\n        running_count.decr()")
    mk("c06-zip-no-chain-cancel", "more_executors/_impl/futures/zip.py", "            chain_cancel(self.out, future)\n", "")
