"""Create /verif/mutants/<name>.patch from a (file, old, new) edit against /repo's working tree.
usage (python): mk(name, relpath, old, new)"""
import difflib, os, sys
REPO = "/repo"
def mk(name, rel, old, new, count=1):
    p = os.path.join(REPO, rel)
    s = open(p).read()
    assert s.count(old) >= 1, (name, "pattern not found")
    t = s.replace(old, new, count)
    d = difflib.unified_diff(s.splitlines(True), t.splitlines(True), "a/" + rel, "b/" + rel)
    open(os.path.join("/verif/mutants", name + ".patch"), "w").write("".join(d))
    print("wrote", name)
if __name__ == "__main__":
    R = "more_executors/_impl/"
    # C01
    mk("c01-retry-callback-matches-any-done-delegate", R + "retry.py", "if job.delegate_future == delegate_future:", "if job.delegate_future is not None and job.delegate_future.done():")
    mk("c01-flatmap-keeps-fn-after-flatten", R + "flat_map.py", "        self._map_fn = lambda x: x\n", "")
    mk("c01-retry-no-pop-before-resubmit", R + "retry.py", "                self._pop_job(job)\n\n                # We need the future's lock now too", "                # We need the future's lock now too")
    # C02
    mk("c02-cancel-no-notify", R + "common.py", "            if out:\n                self.set_running_or_notify_cancel()\n        if out:\n            self._me_invoke_callbacks()\n        return out\n\n    def _me_delegate_cancelled", "        if out:\n            self._me_invoke_callbacks()\n        return out\n\n    def _me_delegate_cancelled")
    mk("c02-add-done-callback-no-lock", R + "common.py", "        with self._me_lock:\n            if not self.done():\n                self._me_done_callbacks.append(fn)\n                return\n", "        if not self.done():\n            self._me_done_callbacks.append(fn)\n            return\n")
    mk("c02-pollfuture-set-result-no-done-guard", R + "poll.py", "        with self._me_lock:\n            if self.done():\n                return\n            super(PollFuture, self).set_result(result)", "        with self._me_lock:\n            super(PollFuture, self).set_result(result)")
    # C03
    mk("c03-retry-retry-no-wake", R + "retry.py", "            new_job.stop_retry = job.stop_retry\n            self._append_job(new_job)\n\n        self._wake_thread()", "            new_job.stop_retry = job.stop_retry\n            self._append_job(new_job)\n")
    mk("c03-poll-register-no-set", R + "poll.py", "            future._clear_delegate()\n            self._poll_event.set()", "            future._clear_delegate()")
    mk("c03-zip-ignores-cancelled-input", "more_executors/_impl/futures/zip.py", "            elif f.cancelled():\n                self.done = True\n                cancel = True\n", "            elif f.cancelled():\n                pass\n")
    mk("c03-map-ignores-cancelled-delegate", R + "map.py", "            self._me_delegate_cancelled()\n            return\n\n        ex = delegate.exception()", "            return\n\n        ex = delegate.exception()")
    mk("c03-throttle-done-no-set", R + "throttle.py", "        running_count.decr()\n        event.set()", "        running_count.decr()")
    # C04
    mk("c04-retry-cancel-lock-order", R + "retry.py", "    def _me_cancel(self):\n        executor = self._executor\n        return executor and executor._cancel(self)", "    def _me_cancel(self):\n        executor = self._executor\n        if not executor:\n            return executor\n        self._me_lock.release()\n        try:\n            with executor._lock:\n                with self._me_lock:\n                    return executor._cancel(self)\n        finally:\n            self._me_lock.acquire()")
    mk("c04-cos-cancel-under-lock", R + "cancel_on_shutdown.py", "        with self._lock:\n            futures = self._futures.copy()\n\n        for f in futures:\n            cancel = f.cancel()\n            self._log.debug(\"Cancel %s: %s\", f, cancel)\n            if cancel:\n                metrics.SHUTDOWN_CANCEL.labels(executor=self._name).inc()\n", "        with self._lock:\n            futures = self._futures.copy()\n\n            for f in futures:\n                cancel = f.cancel()\n                self._log.debug(\"Cancel %s: %s\", f, cancel)\n                if cancel:\n                    metrics.SHUTDOWN_CANCEL.labels(executor=self._name).inc()\n")
    mk("c04-gate-not-reentrant", R + "helpers.py", "        self._lock = RLock()", "        self._lock = __import__('threading').Lock()")
    # C06
    mk("c06-submit-now-no-done-recheck", R + "retry.py", "                if job.future.done():\n                    self._log.debug(\n                        \"future done %s - not submitting to delegate\", job.future\n                    )\n                    return\n", "")
    mk("c06-retry-drops-stop-retry", R + "retry.py", "            new_job.stop_retry = job.stop_retry\n", "")
    mk("c06-throttle-cancel-true-without-removing", R + "throttle.py", "                if job.future is future:\n                    self._to_submit.remove(job)\n", "                if job.future is future:\n")
    mk("c06-zip-no-chain-cancel", "more_executors/_impl/futures/zip.py", "            chain_cancel(self.out, future)\n", "")
