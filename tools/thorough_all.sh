#!/bin/sh
# runs the thorough tier of every check once (evidence and replays go to scratch dirs); one line per property
export VERIF_EVIDENCE_DIR=${VERIF_EVIDENCE_DIR:-/tmp/verif-thorough-ev} VERIF_REPLAY_DIR=${VERIF_REPLAY_DIR:-$PWD/thorough-replays}
for p in ${*:-C01 C02 C03 C04 C05 C06 C07 C08 C09 C10 C11 C12 C13 C14 C15 C16 C17 C18 C19 C20}; do
  out=$(./check $p --tier thorough 2>&1); rc=$?
  echo "$p rc=$rc $(echo "$out" | tail -1 | cut -c1-170)"
  if [ $rc -ne 0 ]; then echo "$out" | grep -E "VIOLATION|HARNESS|signature|^  [a-z]" | cut -c1-600; fi
done
