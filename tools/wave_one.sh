#!/bin/sh
# usage: tools/wave_one.sh <P> <n>  - ingest one sub-agent result (tools/ingest_seeded.sh) and run the property's quick check against it
P=$1; n=$2
/verif/tools/ingest_seeded.sh $P $n > /tmp/wave-$P-$n.log 2>&1
echo "--- try" >> /tmp/wave-$P-$n.log
LINES_MAX=6 /verif/tools/try_seeded.sh $P-$n $P >> /tmp/wave-$P-$n.log 2>&1
