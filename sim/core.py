"""Deterministic baton-passing scheduler, virtual clock and simulated threading primitives.

One `Sim` object is one simulated execution.  Real OS threads run the real library code,
but exactly one of them holds the *baton* at any time; at every synchronisation operation
(and, optionally, at every source line of the code under test) the baton holder asks the
`Chooser` who runs next.  Time is an integer-nanosecond virtual clock that jumps to the
next timer when nobody is runnable.

Nothing in here reads a real clock or an unseeded PRNG, and nothing logs object ids.
"""
import _thread
import collections
import hashlib
import queue as _rqueue
import random
import zlib
import sys
import threading as _rt
import time as _rtime

NEW, RUNNABLE, BLOCKED, DONE = "N", "R", "B", "D"

ACTIVE = None  # the Sim currently executing (at most one per process)

_get_ident = _thread.get_ident


class SimAbort(BaseException):
    """Raised inside simulated threads to unwind them when a run ends."""


class HarnessError(Exception):
    """The simulator itself misbehaved (never a verdict about the code under test)."""


class Divergence(HarnessError):
    pass


# ----------------------------------------------------------------------------------------
# choosers: who runs next
# ----------------------------------------------------------------------------------------
class RandomChooser(object):
    """Seeded scheduling strategies (DESIGN 3.3).

    cfg keys: strategy in {uniform, sticky, pct, pb, rd}; p (sticky); q, max_hold (rd); d (pct depth / pb count);
    est (estimated run length in steps for pct/pb); line_q (probability that a LINE event is
    a yield point); stall_p (probability of a thread stall at a yield point).
    """

    def __init__(self, seed, cfg):
        self.rng = random.Random(seed)
        self.cfg = cfg
        self.strategy = cfg.get("strategy", "uniform")
        self.p = cfg.get("p", 0.8)
        self.line_q = cfg.get("line_q", 0.0)
        self.stall_p = cfg.get("stall_p", 0.0)
        self.stall_max_ns = int(cfg.get("stall_max_s", 3.0) * 1e9)
        est = max(int(cfg.get("est", 1000)), 10)
        d = int(cfg.get("d", 2))
        self.prio = {}
        if self.strategy == "pct":
            self.change_points = sorted(self.rng.randrange(est) for _ in range(max(d - 1, 0)))
            self.low = 0
        elif self.strategy == "pb":
            self.preempt_at = set(self.rng.randrange(est) for _ in range(d))
        if self.strategy in ("pct", "pb"):
            # line events are all potential yield points for these strategies
            self.line_q = cfg.get("line_q", 1.0)
        self.cur_why = None
        self.cur_obj = None
        # yield points inside scripted user code (callables, map / poll / cancel functions, policies,
        # done-callbacks) are where the library is re-entered or raced by design: extra chance of a switch
        self.user_q = cfg.get("user_q", 0.0)
        if self.strategy == "place":
            # placement: when user code hands off to a client that was waiting for this very
            # moment (a semantic trigger), run that client alone for k yield points, then run the
            # thread that was inside the window until it blocks or ends, then the client again.
            # One seed = one placement k of the racing operation relative to the window.
            self.line_q = cfg.get("line_q", 1.0)
            self.pl_k = 1 + self.rng.randrange(int(cfg.get("kmax", 60)))
            self.pl_state = "idle"
            self.pl_a = self.pl_b = None
            self.pl_n = 0
        if self.strategy == "site":
            # site-directed: a seed-dependent subset of the library's source lines (about one in
            # site_mod) is "hot"; the first few times any thread reaches a hot line it is pre-empted.
            # A defect that needs a pre-emption at one particular place costs ~1/site_mod per run
            # instead of (window / run length) under uniform placement.
            self.line_q = 1.0
            self.site_mod = int(cfg.get("site_mod", 150))
            self.site_salt = seed
            self.site_hits = {}
            self.site_hot = {}
        if self.strategy == "rd":
            # race-directed: a thread about to acquire a lock may be held back until another
            # thread arrives at the same lock (then a coin decides who goes first) - places two
            # pre-emptions around one object, which uniform placement finds once in ~est^2 runs
            self.q = cfg.get("q", 0.25)
            self.max_hold = int(cfg.get("max_hold", 300))
            self.held = {}
            self.conflicts = 0

    def line(self, step):
        q = self.line_q
        if q <= 0.0:
            return False
        if q >= 1.0:
            return True
        return self.rng.random() < q

    def stall(self, step):
        if self.stall_p and self.rng.random() < self.stall_p:
            return self.rng.randrange(1, self.stall_max_ns)
        return 0

    def pick(self, step, cands, cur, default):
        s = self.strategy
        rng = self.rng
        if s == "place":
            st = self.pl_state
            runnable = cur is not None and cur.status == RUNNABLE
            if st == "idle" and runnable and self.cur_why == "user-handoff":
                others = [t for t in cands if t is not cur]
                if others:
                    a = others[rng.randrange(len(others))]
                    if rng.random() < 0.5:
                        # the client first: k of its yield points, then the thread inside the window
                        self.pl_state, self.pl_a, self.pl_b, self.pl_n = "counting", a.tid, cur.tid, 0
                        return a
                    # or the other way round: the thread inside the window goes on for k yield points
                    # (out of the user code, into the library's bookkeeping), then the client runs
                    self.pl_state, self.pl_a, self.pl_b, self.pl_n = "counting", cur.tid, a.tid, 0
                    return cur
            elif st == "counting":
                if runnable and cur.tid == self.pl_a:
                    self.pl_n += 1
                    if self.pl_n >= self.pl_k:
                        for t in cands:
                            if t.tid == self.pl_b:
                                self.pl_state = "running-b"
                                return t
                        self.pl_state = "done"
                    return cur
                self.pl_state = "done"      # the client blocked or ended before its k-th point
            elif st == "running-b":
                if runnable and cur.tid == self.pl_b:
                    return cur
                self.pl_state = "done"
                for t in cands:
                    if t.tid == self.pl_a:
                        return t
            if runnable:
                return cur
            return cands[rng.randrange(len(cands))]
        if cur is not None and cur.status == RUNNABLE and isinstance(self.cur_why, str) and self.cur_why.startswith("user"):
            q = 0.5 if self.cur_why == "user-handoff" else self.user_q
            if q and rng.random() < q:
                others = [t for t in cands if t is not cur]
                if others:
                    return others[rng.randrange(len(others))]
        if s == "uniform":
            return cands[rng.randrange(len(cands))]
        if s == "sticky":
            if cur is not None and cur.status == RUNNABLE and rng.random() < self.p:
                return cur
            return cands[rng.randrange(len(cands))]
        if s == "pb":
            if cur is not None and cur.status == RUNNABLE:
                if step in self.preempt_at:
                    others = [t for t in cands if t is not cur]
                    if others:
                        return others[rng.randrange(len(others))]
                return cur
            return cands[rng.randrange(len(cands))]
        if s == "site":
            if cur is not None and cur.status == RUNNABLE:
                why = self.cur_why
                if isinstance(why, tuple):
                    hot = self.site_hot.get(why)
                    if hot is None:
                        # loop back-edges (iteration over a container another thread may be editing)
                        # are eight times as likely to be hot as ordinary line starts
                        mod = max(self.site_mod // 8, 4) if len(why) > 2 else self.site_mod
                        hot = self.site_hot[why] = (zlib.crc32(("%s:%s:%d" % (why[0], why[1], self.site_salt)).encode()) % mod == 0)
                    if hot:
                        k = self.site_hits.get(why, 0)
                        if k < 3:
                            self.site_hits[why] = k + 1
                            others = [t for t in cands if t is not cur]
                            if others:
                                return others[rng.randrange(len(others))]
                return cur
            return cands[rng.randrange(len(cands))]
        if s == "rd":
            held = self.held
            for tid in [k for (k, v) in held.items() if v[1] <= step]:
                del held[tid]
            if cur is not None and cur.status == RUNNABLE:
                held.pop(cur.tid, None)
                obj = self.cur_obj if self.cur_why == "acq" else None
                if obj is not None:
                    rivals = [t for t in cands if t is not cur and t.tid in held and held[t.tid][0] is obj]
                    if rivals:
                        self.conflicts += 1
                        if rng.random() < 0.5:
                            r = rivals[0]
                            del held[r.tid]
                            held[cur.tid] = (obj, step + self.max_hold)
                            return r
                        return cur
                    if len(held) < 2 and rng.random() < self.q:
                        others = [t for t in cands if t is not cur and t.tid not in held]
                        if others:
                            held[cur.tid] = (obj, step + self.max_hold)
                            return others[rng.randrange(len(others))]
                return cur
            free = [t for t in cands if t.tid not in held]
            if free:
                return free[rng.randrange(len(free))]
            t = cands[rng.randrange(len(cands))]
            del held[t.tid]
            return t
        if s == "pct":
            prio = self.prio
            for t in cands:
                if t.tid not in prio:
                    prio[t.tid] = rng.random() + 1.0
            while self.change_points and self.change_points[0] <= step:
                self.change_points.pop(0)
                if cur is not None:
                    self.low -= 1
                    prio[cur.tid] = self.low
            best = cands[0]
            for t in cands:
                if prio[t.tid] > prio[best.tid]:
                    best = t
            return best
        raise HarnessError("unknown strategy %r" % (s,))


class TraceChooser(object):
    """Replays a recorded decision trace: {step: tid} plus stalls {step: ns}.

    Every decision not in the trace is the default one (keep the current thread if it is
    runnable, else the runnable thread with the lowest tid).  strict: a decision naming a
    thread that is not runnable is a Divergence; lenient (used while minimising): ignored.
    """

    def __init__(self, decisions, stalls=None, strict=True):
        self.decisions = dict(decisions)
        self.stalls = dict(stalls or {})
        self.strict = strict

    def line(self, step):
        return step in self.decisions

    def stall(self, step):
        return self.stalls.get(step, 0)

    def pick(self, step, cands, cur, default):
        tid = self.decisions.get(step)
        if tid is None:
            return default
        for t in cands:
            if t.tid == tid:
                return t
        if self.strict:
            raise Divergence("step %d: thread %d not runnable" % (step, tid))
        return default


# ----------------------------------------------------------------------------------------
class TState(object):
    __slots__ = ("tid", "name", "kind", "daemon", "park", "status", "wait_obj", "deadline",
                 "woken_by", "real", "ident", "exc", "joiners", "is_client", "held",
                 "blocked_untimed_since", "__weakref__")

    def __init__(self, tid, name, daemon):
        self.tid = tid
        self.name = name
        self.kind = name.rstrip("0123456789-_")
        self.daemon = daemon
        self.park = _thread.allocate_lock()
        self.park.acquire()
        self.status = NEW
        self.wait_obj = None
        self.deadline = None
        self.woken_by = None
        self.real = None
        self.ident = None
        self.exc = None
        self.joiners = []
        self.is_client = False
        self.held = []

    def __repr__(self):
        return "<T%d %s %s>" % (self.tid, self.name, self.status)


_ADDR = __import__("re").compile(r"0x[0-9a-fA-F]+")


def _scrub(s):
    """Remove memory addresses from text that goes into the event log."""
    return _ADDR.sub("0x?", s)


def _site(depth=2):
    """Creation site of a primitive: the two innermost frames outside the simulator
    (e.g. 'helpers.py:ShutdownHelper.__init__<retry.py:RetryExecutor.__init__')."""
    f = sys._getframe(depth)
    out = []
    while f is not None and len(out) < 2:
        co = f.f_code
        fn = co.co_filename
        if not (fn.endswith("/sim/core.py") or fn.endswith("/sim/seams.py")):
            out.append("%s:%s" % (fn.rsplit("/", 1)[-1], co.co_qualname))
        f = f.f_back
    return "<".join(out) if out else "?"


class Sim(object):
    def __init__(self, chooser, tick_ns=1000, step_cap=300000, horizon_s=3600.0,
                 line_mode=False, wall_timeout=20.0):
        self.chooser = chooser
        self.now_ns = 0
        self.tick_ns = tick_ns
        self.threads = []
        self.cur = None
        self.step = 0
        self.step_cap = step_cap
        self.horizon_ns = int(horizon_s * 1e9)
        self.line_mode = line_mode
        self.wall_timeout = wall_timeout
        self.log = []
        self.seq = 0
        self.ctl = _thread.allocate_lock()
        self.ctl.acquire()
        self.outcome = None
        self.aborting = False
        self.finished = False
        self.serial = 0
        self.trace = []          # (step, tid) for every non-default decision
        self.stalls = []         # (step, ns)
        self.switches = 0
        self.preemptions = 0     # switches away from a runnable thread
        self.lib_preemptions = 0  # ... at a LINE event inside the code under test
        self.clock_jumps = 0
        self.clock_reads = 0
        self.digest = 0
        self.lock_edges = set()  # (site_held, site_wanted)
        self.pairs = set()       # (pre-empted site, resumed thread kind)
        self.harness_error = None
        self.cur_line = None     # (basename, lineno) of the last LINE event
        self.on_jump = None      # optional callback(sim, old_ns, new_ns, woken)
        self.real_threads = 0
        self.final_blocked = []
        self.final_stacks = {}
        self._run_len = 0
        self.fair_bound = 400      # consecutive sync ops before a forced round-robin switch
        self.spin_bound = 20000    # ... by a lone runnable thread, without ever blocking: a spin
        self.fair_switches = 0
        self.spin_jumps = 0
        self.coalesce_ns = 0       # fault: timers due within this window of the earliest one fire together (late wake-ups)
        self.coalesced = 0
        self.late_ns = 0

    # ------------------------------------------------------------------ logging / ids
    def next_serial(self):
        self.serial += 1
        return self.serial

    def ev(self, kind, *data):
        """Append to the event log; returns the global sequence number of the event."""
        if self.aborting:
            return self.seq
        self.seq += 1
        self.log.append((self.seq, self.now_ns, self.cur.tid if self.cur is not None else -1,
                         kind) + data)
        return self.seq

    def log_sha(self):
        h = hashlib.sha256()
        for e in self.log:
            h.update(repr(e).encode())
        h.update(repr((self.outcome, self.step, self.now_ns)).encode())
        return h.hexdigest()

    def monotonic(self):
        self.clock_reads += 1
        self.now_ns += self.tick_ns
        return self.now_ns / 1e9

    def now(self):
        return self.now_ns / 1e9

    # ------------------------------------------------------------------ run control
    def run(self, main_fn, name="client-0"):
        global ACTIVE
        if ACTIVE is not None:
            raise HarnessError("nested Sim.run")
        ACTIVE = self
        try:
            t = self.spawn(main_fn, name, daemon=False, client=True)
            self.cur = t
            t.park.release()
            if not self.ctl.acquire(timeout=self.wall_timeout):
                self.harness_error = "wall-timeout: " + repr(
                    [(x.name, x.status, type(x.wait_obj).__name__) for x in self.threads])
                self.aborting = True
                self.finished = True
                raise HarnessError(self.harness_error)
        finally:
            self.finished = True
            ACTIVE = None
        for t in self.threads:
            if t.real is not None:
                t.real.join(10)
                if t.real.is_alive():
                    raise HarnessError("leaked thread %s" % t.name)
        if self.harness_error:
            raise HarnessError(self.harness_error)
        return self.outcome

    def spawn(self, fn, name, daemon=True, client=False):
        ts = TState(len(self.threads), name, daemon)
        ts.is_client = client
        self.threads.append(ts)
        sim = self

        def boot():
            ts.ident = _get_ident()
            ts.park.acquire()
            try:
                if not sim.aborting:
                    fn()
            except SimAbort:
                pass
            except Divergence as e:
                sim.harness_error = "divergence: %s" % (e,)
                sim.aborting = True
            except BaseException as e:  # the thread died with an exception
                ts.exc = e
                if not sim.aborting:
                    tb = e.__traceback__
                    frames = []
                    while tb is not None:
                        fnm = tb.tb_frame.f_code.co_filename
                        frames.append("%s:%s" % (fnm.rsplit("/", 1)[-1], tb.tb_frame.f_code.co_name))
                        tb = tb.tb_next
                    sim.ev("thread-died", ts.name, type(e).__name__, _scrub(str(e))[:200], tuple(frames[-6:]))
            finally:
                try:
                    sim._thread_exit(ts)
                except BaseException as e:  # pragma: no cover - must never happen
                    sim.harness_error = "thread_exit: %r" % (e,)
                    sim.aborting = True
                    try:
                        sim.ctl.release()
                    except RuntimeError:
                        pass

        ts.real = _rt.Thread(target=boot, name="sim-" + name, daemon=True)
        ts.status = RUNNABLE
        ts.real.start()
        self.real_threads += 1
        return ts

    def _thread_exit(self, ts):
        ts.status = DONE
        ts.held = []
        for j in ts.joiners:
            self._wake(j, "notify")
        ts.joiners = []
        if not self.aborting:
            self.ev("thread-exit", ts.name)
            if all(t.status == DONE for t in self.threads if t.is_client):
                if self.outcome is None:
                    self.outcome = ("clients-done",)
                    self.final_blocked = self._blocked_desc()
                    if any(b[1] in ("SimLock", "SimRLock") and not b[3] and b[5] for b in self.final_blocked):
                        self.final_stacks = self._stacks()
                self.aborting = True
        if self.aborting:
            self._abort_next()
            return
        try:
            self._dispatch(ts)
        except SimAbort:
            self._abort_next()
        except Divergence as e:
            self.harness_error = "divergence: %s" % (e,)
            self.aborting = True
            self._abort_next()

    def _abort_next(self):
        for t in self.threads:
            if t.status != DONE:
                self.cur = t
                t.status = RUNNABLE
                t.park.release()
                return
        self.ctl.release()

    def _end(self, *outcome):
        if self.outcome is None:
            if outcome[0] == "step-cap":
                # where was the thread that ran out of steps?  (diagnosis of spins / livelocks)
                f = sys._getframe(1)
                fr = []
                while f is not None and len(fr) < 12:
                    fn = f.f_code.co_filename
                    if not fn.endswith("/sim/core.py"):
                        fr.append("%s:%s:%d" % (fn.rsplit("/", 1)[-1], f.f_code.co_name, f.f_lineno))
                    f = f.f_back
                outcome = outcome + (self.cur.name if self.cur else None, tuple(fr))
            self.outcome = outcome
            self.final_blocked = self._blocked_desc()
            if outcome[0] in ("deadlock", "stuck", "horizon", "step-cap"):
                self.final_stacks = self._stacks()
        self.aborting = True
        raise SimAbort()

    def _stacks(self):
        """Library-level stack of every live simulated thread (diagnostics only, never hashed)."""
        frames = sys._current_frames()
        out = {}
        for t in self.threads:
            if t.status == DONE or t.ident not in frames:
                continue
            f = frames[t.ident]
            fr = []
            while f is not None:
                fn = f.f_code.co_filename
                if not fn.endswith(("/sim/core.py", "/threading.py", "/sim/seams.py")):
                    fr.append("%s:%s:%d" % (fn.rsplit("/", 1)[-1], f.f_code.co_name, f.f_lineno))
                f = f.f_back
            out["%s#%d" % (t.name, t.tid)] = fr[:14]
        return out

    def stop(self, *outcome):
        """Called by scenario code to end the run with the given outcome."""
        self._end(*outcome)

    # ------------------------------------------------------------------ scheduling
    def _blocked_desc(self):
        """(thread, primitive type, creation site, timed?, owner thread, owner blocked untimed?)"""
        out = []
        for t in self.threads:
            if t.status == BLOCKED:
                w = t.wait_obj
                o = getattr(w, "_owner_ts", None)
                out.append(("%s#%d" % (t.name, t.tid), type(w).__name__, getattr(w, "site", None),
                            t.deadline is not None, "%s#%d" % (o.name, o.tid) if o is not None else None,
                            bool(o is not None and (o is t or (o.status == BLOCKED and o.deadline is None)))))
        return out

    def _choose(self, cands, why):
        """cands: runnable threads sorted by tid, len > 1."""
        cur = self.cur
        if cur is not None and cur.status == RUNNABLE:
            default = cur
        else:
            default = cands[0]
        nxt = self.chooser.pick(self.step, cands, cur, default)
        if nxt is not default:
            self.trace.append((self.step, nxt.tid))
        return nxt

    def _switch(self, me, nxt, why):
        self.switches += 1
        self._run_len = 0
        self.digest = (self.digest * 1000003 ^ hash((me.kind, nxt.kind, why))) & 0xFFFFFFFFFFFF
        self.cur = nxt
        nxt.park.release()
        me.park.acquire()
        if self.aborting:
            raise SimAbort()

    def yield_point(self, why, obj=None):
        if self.aborting:
            raise SimAbort()
        self.step += 1
        if self.step > self.step_cap:
            self._end("step-cap")
        st = self.chooser.stall(self.step)
        if st:
            self.stalls.append((self.step, st))
            self.now_ns += st
            self.ev("stall", st)
        me = self.cur
        cands = [t for t in self.threads if t.status == RUNNABLE]
        if len(cands) > 1:
            # fairness: a thread spinning through synchronisation operations (e.g. a blocking
            # submit polling an event that is already set) must eventually let the others run,
            # as any OS scheduler would; deterministic, hence not part of the decision trace.
            self._run_len += 1
            if self._run_len > self.fair_bound:
                self._run_len = 0
                self.fair_switches += 1
                later = [t for t in cands if t.tid > me.tid]
                nxt = later[0] if later else cands[0]
                if nxt is not me:
                    self._switch(me, nxt, "fair")
                return
            ch = self.chooser
            ch.cur_why = why
            ch.cur_obj = obj
            nxt = self._choose(cands, why)
            ch.cur_obj = None
            if nxt is not me:
                self.preemptions += 1
                self._switch(me, nxt, why)
        else:
            # busy-waiting consumes time: a lone runnable thread spinning through
            # synchronisation operations while others sit in timed waits lets the clock reach
            # the earliest of those timers (deterministic, not a scheduling decision).
            self._run_len += 1
            if self._run_len > self.spin_bound:
                self._run_len = 0
                timed = [t for t in self.threads if t.status == BLOCKED and t.deadline is not None]
                if timed:
                    d = min(t.deadline for t in timed)
                    if d <= self.horizon_ns:
                        self.spin_jumps += 1
                        if d > self.now_ns:
                            self.ev("spin-jump", d - self.now_ns)
                            self.now_ns = d
                        for t in timed:
                            if t.deadline <= self.now_ns:
                                w = t.wait_obj
                                if w is not None:
                                    w._sim_remove_waiter(t)
                                self._wake(t, "timeout")

    def line_point(self, site):
        """Called from the sys.monitoring LINE callback for code under test."""
        self.step += 1
        if self.step > self.step_cap:
            self._end("step-cap")
        if self.chooser.line(self.step):
            me = self.cur
            cands = [t for t in self.threads if t.status == RUNNABLE]
            if len(cands) > 1:
                self.chooser.cur_why = site
                nxt = self._choose(cands, site)
                if nxt is not me:
                    self.preemptions += 1
                    self.lib_preemptions += 1
                    self.pairs.add((site, nxt.kind))
                    self._switch(me, nxt, site)

    def _wake(self, t, reason):
        if t.status != BLOCKED or self.aborting:
            return
        t.status = RUNNABLE
        t.woken_by = reason
        t.deadline = None
        t.wait_obj = None

    def block(self, obj, deadline_ns=None):
        """Block the current thread until woken; returns 'notify' or 'timeout'."""
        if self.aborting:
            raise SimAbort()
        me = self.cur
        me.status = BLOCKED
        me.wait_obj = obj
        me.deadline = deadline_ns
        me.woken_by = None
        self._dispatch(me)
        return me.woken_by

    def _find_lock_cycle(self):
        """Wait-for cycle among threads blocked (untimed) on locks: returns list or None."""
        for start in self.threads:
            if start.status != BLOCKED or start.deadline is not None:
                continue
            seen = []
            t = start
            while t is not None and t.status == BLOCKED and t.deadline is None:
                w = t.wait_obj
                owner = getattr(w, "_owner_ts", None)
                if owner is None:
                    break
                seen.append(("%s#%d" % (t.name, t.tid), getattr(w, "site", "?")))
                if owner is start:
                    return seen
                if any(("%s#%d" % (owner.name, owner.tid)) == n for (n, _) in seen):
                    break
                t = owner
        return None

    def _dispatch(self, me):
        """`me` is blocked or done: pick someone to run (possibly `me` after a timeout)."""
        self._run_len = 0
        self.step += 1
        if self.step > self.step_cap:
            self._end("step-cap")
        while True:
            cands = [t for t in self.threads if t.status == RUNNABLE]
            if cands:
                break
            cyc = self._find_lock_cycle()
            if cyc:
                self._end("deadlock", tuple(cyc), tuple(self._blocked_desc()))
            timed = [t for t in self.threads if t.status == BLOCKED and t.deadline is not None]
            if not timed:
                if any(t.status == BLOCKED and t.is_client for t in self.threads):
                    self._end("stuck", tuple(self._blocked_desc()))
                self._end("quiescent")
            d = min(t.deadline for t in timed)
            if self.coalesce_ns:
                # a timer may fire late, never early: everything due within the window wakes at
                # the latest of those deadlines, so that the woken threads really run concurrently
                d2 = max(t.deadline for t in timed if t.deadline <= d + self.coalesce_ns)
                if d2 > d:
                    self.coalesced += 1
                    self.late_ns += d2 - d
                    d = d2
            if d > self.horizon_ns:
                self._end("horizon", tuple(self._blocked_desc()))
            old = self.now_ns
            if d > self.now_ns:
                self.now_ns = d
                self.clock_jumps += 1
            woken = []
            for t in timed:
                if t.deadline <= self.now_ns:
                    w = t.wait_obj
                    if w is not None:
                        w._sim_remove_waiter(t)
                    woken.append((t.name, type(w).__name__, getattr(w, "site", None)))
                    self._wake(t, "timeout")
            if d > old:
                self.ev("clock-jump", d - old, tuple(woken))
                if self.on_jump is not None:
                    self.on_jump(self, old, d, woken)
        if len(cands) > 1:
            self.chooser.cur_why = "block"
            nxt = self._choose(cands, "block")
        else:
            nxt = cands[0]
        if nxt is me:
            self.cur = me
            return
        if me.status == DONE:
            self.switches += 1
            self.cur = nxt
            nxt.park.release()
            return
        self._switch(me, nxt, "block")

    def deadline(self, timeout):
        if timeout is None or timeout < 0:
            return None
        ns = int(timeout * 1e9)
        if ns < timeout * 1e9:
            ns += 1
        return self.now_ns + ns

    def sleep(self, secs):
        """Virtual sleep of the current simulated thread (used by scripted user code)."""
        self.yield_point("sleep")
        if secs > 0:
            self.block(_SLEEP, self.deadline(secs))


class _Sleep(object):
    site = "sleep"

    def _sim_remove_waiter(self, t):
        pass


_SLEEP = _Sleep()


def current():
    """The active Sim if the caller is its baton holder, else None."""
    s = ACTIVE
    if s is not None:
        c = s.cur
        if c is not None and c.ident == _get_ident():
            return s
    return None


# ----------------------------------------------------------------------------------------
# simulated primitives
# ----------------------------------------------------------------------------------------
class _Prim(object):
    __slots__ = ()


class SimLock(object):
    """threading.Lock: non re-entrant, may be released by any thread, barging hand-off."""

    def __init__(self):
        self._sim = ACTIVE
        self._locked = False
        self._owner_ts = None
        self._waiters = []
        self.site = _site()

    def _sim_remove_waiter(self, t):
        if t in self._waiters:
            self._waiters.remove(t)

    def _note_acquired(self, sim, me):
        self._owner_ts = me
        if me.held:
            s2 = self.site
            for h in me.held:
                if h is not self:
                    sim.lock_edges.add((h.site, s2))
        me.held.append(self)

    def acquire(self, blocking=True, timeout=-1):
        sim = self._sim
        if sim.finished:
            return True
        sim.yield_point("acq", self)
        me = sim.cur
        if not self._locked:
            self._locked = True
            self._note_acquired(sim, me)
            return True
        if not blocking:
            return False
        dl = sim.deadline(timeout)
        while self._locked:
            self._waiters.append(me)
            if sim.block(self, dl) == "timeout":
                return False
        self._locked = True
        self._note_acquired(sim, me)
        return True

    def release(self):
        sim = self._sim
        if sim.finished:
            return
        if not self._locked:
            if sim.aborting:
                return
            raise RuntimeError("release unlocked lock")
        self._locked = False
        o = self._owner_ts
        self._owner_ts = None
        if o is not None:
            try:
                o.held.remove(self)
            except ValueError:
                pass
        ws, self._waiters = self._waiters, []
        for w in ws:
            sim._wake(w, "notify")
        if not sim.aborting:
            sim.yield_point("rel")

    def locked(self):
        return self._locked

    def __enter__(self):
        return self.acquire()

    def __exit__(self, *a):
        self.release()

    # Condition support
    def _release_save(self):
        self.release()

    def _acquire_restore(self, _):
        self.acquire()

    def _is_owned(self):
        return self._locked


class SimRLock(object):
    def __init__(self):
        self._sim = ACTIVE
        self._owner_ts = None
        self._count = 0
        self._waiters = []
        self.site = _site()

    def _sim_remove_waiter(self, t):
        if t in self._waiters:
            self._waiters.remove(t)

    def _note_acquired(self, sim, me):
        if me.held:
            s2 = self.site
            for h in me.held:
                if h is not self:
                    sim.lock_edges.add((h.site, s2))
        me.held.append(self)

    def acquire(self, blocking=True, timeout=-1):
        sim = self._sim
        if sim.finished:
            return True
        if sim.aborting:
            raise SimAbort()
        me = sim.cur
        if self._owner_ts is me:
            self._count += 1
            return True
        sim.yield_point("acq", self)
        if self._owner_ts is None:
            self._owner_ts = me
            self._count = 1
            self._note_acquired(sim, me)
            return True
        if not blocking:
            return False
        dl = sim.deadline(timeout)
        while self._owner_ts is not None:
            self._waiters.append(me)
            if sim.block(self, dl) == "timeout":
                return False
        self._owner_ts = me
        self._count = 1
        self._note_acquired(sim, me)
        return True

    def release(self):
        sim = self._sim
        if sim.finished:
            return
        if self._owner_ts is not sim.cur:
            if sim.aborting:
                return
            raise RuntimeError("cannot release un-acquired lock")
        self._count -= 1
        if self._count == 0:
            me = self._owner_ts
            self._owner_ts = None
            try:
                me.held.remove(self)
            except ValueError:
                pass
            ws, self._waiters = self._waiters, []
            for w in ws:
                sim._wake(w, "notify")
            if not sim.aborting:
                sim.yield_point("rel")

    def __enter__(self):
        return self.acquire()

    def __exit__(self, *a):
        self.release()

    def _release_save(self):
        c = self._count
        self._count = 1
        self.release()
        return c

    def _acquire_restore(self, c):
        self.acquire()
        self._count = c

    def _is_owned(self):
        return self._owner_ts is self._sim.cur


class SimCondition(object):
    def __init__(self, lock=None):
        self._sim = ACTIVE
        self._lock = lock if lock is not None else SimRLock()
        self.acquire = self._lock.acquire
        self.release = self._lock.release
        self._waiters = collections.deque()
        self.site = _site()

    def __enter__(self):
        return self._lock.__enter__()

    def __exit__(self, *a):
        return self._lock.__exit__(*a)

    def _sim_remove_waiter(self, t):
        try:
            self._waiters.remove(t)
        except ValueError:
            pass

    def wait(self, timeout=None):
        sim = self._sim
        if sim.finished:
            return True
        if sim.aborting:
            raise SimAbort()
        if not self._lock._is_owned():
            raise RuntimeError("cannot wait on un-acquired lock")
        me = sim.cur
        self._waiters.append(me)
        dl = sim.deadline(timeout)
        saved = self._lock._release_save()
        try:
            # the release may have yielded, and a notify may already have removed us
            if me in self._waiters:
                r = sim.block(self, dl)
            else:
                r = "notify"
        finally:
            if not sim.aborting:
                self._lock._acquire_restore(saved)
        return r == "notify"

    def wait_for(self, predicate, timeout=None):
        endtime = None
        waittime = timeout
        result = predicate()
        while not result:
            if waittime is not None:
                if endtime is None:
                    endtime = self._sim.monotonic() + waittime
                else:
                    waittime = endtime - self._sim.monotonic()
                    if waittime <= 0:
                        break
            self.wait(waittime)
            result = predicate()
        return result

    def notify(self, n=1):
        sim = self._sim
        if sim.finished or sim.aborting:
            return
        if not self._lock._is_owned():
            raise RuntimeError("cannot notify on un-acquired lock")
        for _ in range(n):
            if not self._waiters:
                break
            w = self._waiters.popleft()
            if w.status == BLOCKED and w.wait_obj is self:
                sim._wake(w, "notify")
            # else: it has not blocked yet; wait() will notice it is no longer queued

    def notify_all(self):
        self.notify(len(self._waiters))

    notifyAll = notify_all


class SimEvent(object):
    def __init__(self):
        self._sim = ACTIVE
        self._flag = False
        self._waiters = []
        self.site = _site()

    def _sim_remove_waiter(self, t):
        if t in self._waiters:
            self._waiters.remove(t)

    def is_set(self):
        return self._flag

    isSet = is_set

    def set(self):
        sim = self._sim
        if sim.finished or current() is not sim:
            self._flag = True  # e.g. a weakref callback firing after the run
            return
        if sim.aborting:
            self._flag = True
            return
        sim.yield_point("evset")
        self._flag = True
        ws, self._waiters = self._waiters, []
        for w in ws:
            sim._wake(w, "notify")

    def clear(self):
        sim = self._sim
        if sim.finished:
            return
        sim.yield_point("evclr")
        self._flag = False

    def wait(self, timeout=None):
        sim = self._sim
        if sim.finished:
            return True
        sim.yield_point("evwait")
        if self._flag:
            return True
        self._waiters.append(sim.cur)
        return sim.block(self, sim.deadline(timeout)) == "notify"


class SimSemaphore(object):
    def __init__(self, value=1):
        self._sim = ACTIVE
        self._value = value
        self._waiters = []
        self.site = _site()

    def _sim_remove_waiter(self, t):
        if t in self._waiters:
            self._waiters.remove(t)

    def acquire(self, blocking=True, timeout=None):
        sim = self._sim
        if sim.finished:
            return True
        sim.yield_point("sem")
        dl = sim.deadline(timeout)
        while self._value == 0:
            if not blocking or timeout == 0:
                return False
            self._waiters.append(sim.cur)
            if sim.block(self, dl) == "timeout":
                return False
        self._value -= 1
        return True

    def release(self, n=1):
        sim = self._sim
        self._value += n
        if sim.finished or sim.aborting:
            return
        ws, self._waiters = self._waiters, []
        for w in ws:
            sim._wake(w, "notify")

    def __enter__(self):
        return self.acquire()

    def __exit__(self, *a):
        self.release()


class SimSimpleQueue(object):
    def __init__(self):
        self._sim = ACTIVE
        self._q = collections.deque()
        self._waiters = []
        self.site = _site()

    def _sim_remove_waiter(self, t):
        if t in self._waiters:
            self._waiters.remove(t)

    def put(self, item, block=True, timeout=None):
        sim = self._sim
        if sim.finished or sim.aborting or current() is not sim:
            self._q.append(item)
            return
        sim.yield_point("qput")
        self._q.append(item)
        ws, self._waiters = self._waiters, []
        for w in ws:
            sim._wake(w, "notify")

    put_nowait = put

    def get(self, block=True, timeout=None):
        sim = self._sim
        if sim.finished:
            raise _rqueue.Empty
        sim.yield_point("qget")
        dl = sim.deadline(timeout)
        while not self._q:
            if not block:
                raise _rqueue.Empty
            self._waiters.append(sim.cur)
            if sim.block(self, dl) == "timeout":
                raise _rqueue.Empty
        return self._q.popleft()

    def get_nowait(self):
        return self.get(False)

    def empty(self):
        return not self._q

    def qsize(self):
        return len(self._q)


class SimThread(object):
    def __init__(self, group=None, target=None, name=None, args=(), kwargs=None, daemon=None):
        self._sim = ACTIVE
        self._target = target
        self._args = args
        self._kwargs = kwargs or {}
        self.serial = self._sim.next_serial()
        self.name = name or ("Thread-%d" % self.serial)
        self.daemon = bool(daemon)
        self._ts = None
        self.site = "thread"

    def __hash__(self):
        return self.serial

    def __eq__(self, other):
        return self is other

    def start(self):
        sim = self._sim
        if sim.finished:
            return
        if self._ts is not None:
            raise RuntimeError("threads can only be started once")
        target, args, kwargs = self._target, self._args, self._kwargs
        del self._target, self._args, self._kwargs

        def run():
            nonlocal target, args, kwargs
            t, a, k = target, args, kwargs
            target = args = kwargs = None
            t(*a, **k)

        self._ts = sim.spawn(run, self.name, daemon=self.daemon)
        sim.ev("thread-start", self.name)
        sim.yield_point("tstart")

    def run(self):  # pragma: no cover - not used by the code under test
        pass

    def is_alive(self):
        return self._ts is not None and self._ts.status != DONE

    @property
    def ident(self):
        return self._ts.tid + 1000 if self._ts else None

    def join(self, timeout=None):
        sim = self._sim
        if sim.finished:
            return
        sim.yield_point("join")
        ts = self._ts
        if ts is None:
            raise RuntimeError("cannot join thread before it is started")
        if ts is sim.cur:
            raise RuntimeError("cannot join current thread")
        if ts.status == DONE:
            return
        ts.joiners.append(sim.cur)
        sim.block(self, sim.deadline(timeout))

    @property
    def _owner_ts(self):
        return None

    def _sim_remove_waiter(self, t):
        if self._ts is not None and t in self._ts.joiners:
            self._ts.joiners.remove(t)


class SimTimer(SimThread):
    """threading.Timer on the virtual clock (the library does not use it today)."""

    def __init__(self, interval, function, args=None, kwargs=None):
        SimThread.__init__(self, target=self._timer_body)
        self.interval = interval
        self.function = function
        self.args = args if args is not None else []
        self.kwargs = kwargs if kwargs is not None else {}
        self.finished = SimEvent()

    def _timer_body(self):
        self.finished.wait(self.interval)
        if not self.finished.is_set():
            self.function(*self.args, **self.kwargs)
        self.finished.set()

    def cancel(self):
        self.finished.set()


# ----------------------------------------------------------------------------------------
# dispatchers: a simulated object when called by the baton holder of a run, else the real one
# ----------------------------------------------------------------------------------------
def _mk(simcls, real):
    def factory(*a, **k):
        if current() is not None:
            return simcls(*a, **k)
        return real(*a, **k)
    factory.__name__ = "dispatch_" + simcls.__name__
    factory.__qualname__ = factory.__name__
    return factory


Lock = _mk(SimLock, _rt.Lock)
RLock = _mk(SimRLock, _rt.RLock)
Condition = _mk(SimCondition, _rt.Condition)
Event = _mk(SimEvent, _rt.Event)
Semaphore = _mk(SimSemaphore, _rt.Semaphore)
Thread = _mk(SimThread, _rt.Thread)
Timer = _mk(SimTimer, _rt.Timer)
SimpleQueue = _mk(SimSimpleQueue, _rqueue.SimpleQueue)


def monotonic():
    s = current()
    if s is not None:
        return s.monotonic()
    return _rtime.monotonic()


class Shim(object):
    """Module look-alike that overrides a few names and forwards the rest."""

    def __init__(self, real, **over):
        self.__dict__["_real"] = real
        self.__dict__.update(over)

    def __getattr__(self, name):
        return getattr(self._real, name)


def sleep(secs):
    s = current()
    if s is not None:
        return s.sleep(secs)
    return _rtime.sleep(secs)


def wall_time():
    s = current()
    if s is not None:
        return 1.7e9 + s.monotonic()
    return _rtime.time()


def _sim_queue_classes():
    """queue.Queue / LifoQueue / PriorityQueue are pure Python over threading.Lock/Condition and
    time.monotonic: the same source executed in a namespace whose `threading` and `time` are
    the simulated ones gives simulated queues (the library does not use them today; a change
    that starts to must not run on real locks)."""
    import inspect
    ns = {"__name__": "sim_queue"}
    exec(compile(inspect.getsource(_rqueue), "<sim-queue>", "exec"), ns)
    ns["threading"] = Shim(_rt, Lock=SimLock, RLock=SimRLock, Condition=SimCondition)
    ns["time"] = monotonic
    ns["Full"] = _rqueue.Full
    ns["Empty"] = _rqueue.Empty
    return ns["Queue"], ns["LifoQueue"], ns["PriorityQueue"]


(SimQueue, SimLifoQueue, SimPriorityQueue) = _sim_queue_classes()
Queue = _mk(SimQueue, _rqueue.Queue)
LifoQueue = _mk(SimLifoQueue, _rqueue.LifoQueue)
PriorityQueue = _mk(SimPriorityQueue, _rqueue.PriorityQueue)

threading_shim = Shim(_rt, Lock=Lock, RLock=RLock, Condition=Condition, Event=Event,
                      Semaphore=Semaphore, BoundedSemaphore=Semaphore, Thread=Thread, Timer=Timer)
time_shim = Shim(_rtime, monotonic=monotonic, sleep=sleep, time=wall_time, perf_counter=monotonic)
queue_shim = Shim(_rqueue, SimpleQueue=SimpleQueue, Queue=Queue, LifoQueue=LifoQueue, PriorityQueue=PriorityQueue)

REAL_TO_SIM = {
    _rt.Lock: Lock, _rt.RLock: RLock, _rt.Condition: Condition, _rt.Event: Event,
    _rt.Semaphore: Semaphore, _rt.BoundedSemaphore: Semaphore, _rt.Thread: Thread, _rt.Timer: Timer,
    _rtime.monotonic: monotonic, _rtime.sleep: sleep, _rtime.time: wall_time, _rtime.perf_counter: monotonic,
    _rqueue.SimpleQueue: SimpleQueue, _rqueue.Queue: Queue, _rqueue.LifoQueue: LifoQueue, _rqueue.PriorityQueue: PriorityQueue,
    # whole modules bound by `import threading` / `import time` / `import queue`
    _rt: threading_shim, _rtime: time_shim, _rqueue: queue_shim,
}
