"""Stub of prometheus_client (absent from this sandbox): Counter/Gauge with labels().inc()/dec().

Records, per metric and label set, the value and the running minimum; `_reset()` clears all
values between simulated runs.  Updates are plain attribute arithmetic executed by the baton
holder only, so no lock is needed (and none must be taken: no yield point may sit in here).
"""
REGISTRY = {}


class _Child(object):
    __slots__ = ("value", "min", "updates")

    def __init__(self):
        self.value = 0
        self.min = 0
        self.updates = 0

    def inc(self, amount=1):
        self.value += amount
        self.updates += 1

    def dec(self, amount=1):
        self.value -= amount
        self.updates += 1
        if self.value < self.min:
            self.min = self.value


class _Metric(object):
    kind = "?"

    def __init__(self, name, documentation="", labelnames=(), namespace="", **_kw):
        self.name = (namespace + "_" if namespace else "") + name
        self.labelnames = tuple(labelnames)
        self.children = {}
        REGISTRY[self.name] = self

    def labels(self, *args, **kwargs):
        if args:
            key = tuple(str(a) for a in args)
        else:
            if sorted(kwargs) != sorted(self.labelnames):
                raise ValueError("Incorrect label names")
            key = tuple(str(kwargs[n]) for n in self.labelnames)
        c = self.children.get(key)
        if c is None:
            c = self.children[key] = _Child()
        return c


class Counter(_Metric):
    kind = "counter"


class Gauge(_Metric):
    kind = "gauge"


def _reset():
    for m in REGISTRY.values():
        m.children = {}


def _snapshot():
    out = {}
    for name, m in REGISTRY.items():
        for key, c in m.children.items():
            out[(name,) + key] = (c.value, c.min)
    return out
