"""Seams: put the real library and the real concurrent.futures code on simulated primitives.

Everything is applied from outside the repository (no source hooks): module globals that
*are* the real threading/time objects are rebound to dispatchers, and the two stdlib
modules get shim namespaces for `threading`, `time` and `queue`.
"""
import gc
import itertools
import os
import sys
import threading as _rt
import _thread
import weakref

from . import core

_installed = False
REPO = None
TARGET_FILES = {}  # co_filename -> short name (only for files that are pre-emption targets)
_mon_ready = False
TOOL = 3

# Pure plumbing: not interesting as pre-emption points (keeps the schedule space on the code
# that matters).  They still run for real.
_EXCLUDE_LINES = ("logwrap.py", "metrics/null.py", "metrics/__init__.py", "metrics/prometheus.py",
                  "wrap.py", "check.py", "executors.py")


def repo_path():
    return os.environ.get("VERIF_REPO", "/repo")


def install(metrics=False):
    """Import the library from the repo working tree and apply all seams (idempotent)."""
    global _installed, REPO
    if _installed:
        return
    REPO = os.path.realpath(repo_path())
    sys.path.insert(0, REPO)
    here = os.path.dirname(os.path.abspath(__file__))
    if metrics:
        os.environ["MORE_EXECUTORS_PROMETHEUS"] = "1"
        sys.path.insert(0, os.path.join(here, "promstub"))
    else:
        os.environ["MORE_EXECUTORS_PROMETHEUS"] = "0"
    os.environ.pop("MORE_EXECUTORS_DEBUG", None)
    import logging
    logging.disable(logging.CRITICAL)
    _orig_unraisable = sys.unraisablehook

    def _unraisable(u):
        # weakref callbacks / __del__ that run while a finished run is being unwound
        if isinstance(u.exc_value, core.SimAbort):
            return
        _orig_unraisable(u)

    sys.unraisablehook = _unraisable

    import concurrent.futures._base as B
    import concurrent.futures.thread as T
    B.threading = core.threading_shim
    B.time = core.time_shim
    T.threading = core.threading_shim
    T.queue = core.queue_shim

    orig_init = B.Future.__init__

    def init(self):
        orig_init(self)
        s = core.ACTIVE
        self._sim_serial = s.next_serial() if s is not None else id(self)

    B.Future.__init__ = init
    B.Future.__hash__ = lambda self: self._sim_serial

    class _AcquireFutures(object):
        """Same as the stdlib's, but ordered by creation serial rather than id()."""

        def __init__(self, futures):
            self.futures = sorted(futures, key=lambda f: f._sim_serial)

        def __enter__(self):
            for f in self.futures:
                f._condition.acquire()

        def __exit__(self, *a):
            for f in self.futures:
                f._condition.release()

    B._AcquireFutures = _AcquireFutures

    import more_executors  # noqa: F401
    import more_executors._impl.asyncio  # noqa: F401
    mf = os.path.realpath(more_executors.__file__)
    if not mf.startswith(REPO + os.sep):
        raise core.HarnessError("more_executors imported from %s, expected under %s" % (mf, REPO))
    n = 0
    for name, mod in list(sys.modules.items()):
        if mod is None or not (name == "more_executors" or name.startswith("more_executors.")):
            continue
        for k, v in list(vars(mod).items()):
            try:
                r = core.REAL_TO_SIM.get(v)
            except TypeError:
                continue
            if r is not None:
                setattr(mod, k, r)
                n += 1
    if n < 10:
        raise core.HarnessError("only %d threading globals rebound; seam incomplete" % n)

    # pre-emption targets
    root = os.path.join(REPO, "more_executors") + os.sep
    for name, mod in list(sys.modules.items()):
        f = getattr(mod, "__file__", None)
        if not f:
            continue
        rf = os.path.realpath(f)
        if rf.startswith(root):
            short = rf[len(root):]
            if short.startswith("_impl/"):
                short = short[len("_impl/"):]
            if short.endswith(_EXCLUDE_LINES) and not short.endswith("futures/map.py"):
                continue
            TARGET_FILES[f] = short
            TARGET_FILES[rf] = short
    TARGET_FILES[B.__file__] = "cf/_base.py"
    TARGET_FILES[T.__file__] = "cf/thread.py"
    _scan_unknown_real_primitives()
    _hook_local_imports()
    _installed = True


def _hook_local_imports():
    """`import threading` / `from time import sleep` executed *inside a function* of the library
    (or at the top of a library module imported later) bypasses the module-global rebinding
    above; give such imports the same shims.  Only imports issued from more_executors modules
    are affected."""
    import builtins
    orig = builtins.__import__
    shims = {"threading": core.threading_shim, "time": core.time_shim, "queue": core.queue_shim}

    def _import(name, globals=None, locals=None, fromlist=(), level=0):
        m = orig(name, globals, locals, fromlist, level)
        if level == 0 and name in shims and globals is not None:
            n = globals.get("__name__") or ""
            if n == "more_executors" or n.startswith("more_executors."):
                return shims[name]
        return m

    builtins.__import__ = _import


_REAL_TYPES = (type(_thread.allocate_lock()), type(_rt.RLock()), _rt.Event, _rt.Condition,
               _rt.Semaphore, _rt.Thread)

EXTRA = []  # (holder, attribute, path): real primitives found beyond the ones reset_world knows by name


def _scan_unknown_real_primitives():
    """Never run partly un-simulated: every real primitive reachable from module globals of the
    library (three levels deep) is either one that reset_world replaces by name or is recorded
    in EXTRA and replaced generically for the duration of each run.  A module-level real
    Thread cannot be simulated after the fact and is refused."""
    from more_executors._impl import event as E
    from more_executors._impl.futures import base as FB, timeout as FT
    known = set()
    for getter in (lambda: E.GLOBAL_HANDLER.lock, lambda: FT.LOCK, lambda: FB.EXECUTOR._shutdown._lock):
        try:
            known.add(id(getter()))
        except AttributeError:
            pass
    refused = []
    del EXTRA[:]

    def visit(path, holder, key, obj, depth):
        if isinstance(obj, _REAL_TYPES):
            if isinstance(obj, _rt.Thread):
                refused.append(path)
            elif id(obj) not in known:
                EXTRA.append((holder, key, path))
            return
        if depth == 0 or isinstance(obj, type):
            return
        d = getattr(obj, "__dict__", None)
        if isinstance(d, dict) and type(obj).__module__.startswith("more_executors"):
            for k, v in sorted(d.items(), key=lambda kv: str(kv[0])):
                visit(path + "." + str(k), obj, k, v, depth - 1)

    for name, mod in sorted((n, m) for (n, m) in sys.modules.items() if m is not None and n.startswith("more_executors")):
        for k, v in sorted(vars(mod).items()):
            visit(name + "." + k, mod, k, v, 3)
    if refused:
        raise core.HarnessError("unsimulated real threads reachable from module globals: %s" % sorted(set(refused)))


_saved = {}
_RLOCK_TYPE = type(_rt.RLock())


def _sim_like(real):
    """Simulated counterpart of a module-level real primitive (same kind, same re-entrancy)."""
    if isinstance(real, _RLOCK_TYPE):
        return core.SimRLock()
    if isinstance(real, _rt.Event):
        return core.SimEvent()
    if isinstance(real, _rt.Condition):
        return core.SimCondition()
    if isinstance(real, _rt.Semaphore):
        return core.SimSemaphore(real._value)
    return core.SimLock()


def reset_world():
    """Called by the first simulated thread of each run, before any library call."""
    import concurrent.futures.thread as T
    from more_executors._impl import event as E
    from more_executors._impl.futures import base as FB, timeout as FT
    _saved["gsl"] = T._global_shutdown_lock
    _saved["tq"] = T._threads_queues
    _saved["shutdown"] = T._shutdown
    T._global_shutdown_lock = core.SimLock()
    T._threads_queues = weakref.WeakKeyDictionary()
    T._shutdown = False
    T.ThreadPoolExecutor._counter = itertools.count().__next__
    h = E.GLOBAL_HANDLER
    _saved["h"] = (h.lock, h.events, h.shutdown, h.atexit_registered)
    h.lock = _sim_like(h.lock)
    h.events = []
    h.shutdown = False
    h.atexit_registered = True
    _saved["ft"] = (FT.LOCK, FT.EXECUTOR_REF)
    FT.LOCK = _sim_like(FT.LOCK)
    FT.EXECUTOR_REF = None
    _saved["fb"] = (FB.EXECUTOR._shutdown._lock, FB.EXECUTOR._shutdown.is_shutdown)
    FB.EXECUTOR._shutdown._lock = _sim_like(FB.EXECUTOR._shutdown._lock)
    FB.EXECUTOR._shutdown.is_shutdown = False
    if EXTRA:
        twins = {}
        ex = _saved["extra"] = []
        for (holder, key, _path) in EXTRA:
            real = getattr(holder, key, None)
            if not isinstance(real, _REAL_TYPES):
                continue
            if id(real) not in twins:
                twins[id(real)] = _sim_like(real)
            ex.append((holder, key, real))
            setattr(holder, key, twins[id(real)])
    m = sys.modules.get("prometheus_client")
    if m is not None and hasattr(m, "_reset"):
        m._reset()


def restore_world():
    """Called by the controller after each run: real objects back in the module globals."""
    import concurrent.futures.thread as T
    from more_executors._impl import event as E
    from more_executors._impl.futures import base as FB, timeout as FT
    if "gsl" not in _saved:
        return
    T._global_shutdown_lock = _saved["gsl"]
    T._threads_queues = _saved["tq"]
    T._shutdown = _saved["shutdown"]
    h = E.GLOBAL_HANDLER
    (h.lock, h.events, h.shutdown, h.atexit_registered) = _saved["h"]
    (FT.LOCK, FT.EXECUTOR_REF) = _saved["ft"]
    (FB.EXECUTOR._shutdown._lock, FB.EXECUTOR._shutdown.is_shutdown) = _saved["fb"]
    for (holder, key, real) in _saved.get("extra", ()):
        setattr(holder, key, real)
    _saved.clear()


# ----------------------------------------------------------------------------------------
# line-level pre-emption through sys.monitoring (global LINE events, DISABLE elsewhere)
# ----------------------------------------------------------------------------------------
def _on_line(code, line):
    short = TARGET_FILES.get(code.co_filename)
    if short is None:
        return sys.monitoring.DISABLE
    s = core.ACTIVE
    if s is not None and s.line_mode and not s.aborting:
        c = s.cur
        if c is not None and c.ident == _thread.get_ident():
            s.line_point((short, line))
    return None


_jump_line = {}


def _on_jump(code, offset, dest):
    """Backward jumps (loop back-edges) are where CPython's eval loop honours a pending GIL switch
    request, also in the middle of a source line (`[d for (f, d) in xs if f is y]`, a `while`
    on one line): they are pre-emption points like line starts."""
    short = TARGET_FILES.get(code.co_filename)
    if short is None or dest >= offset:
        return sys.monitoring.DISABLE      # per location: a forward jump here is always forward
    s = core.ACTIVE
    if s is not None and s.line_mode and not s.aborting:
        c = s.cur
        if c is not None and c.ident == _thread.get_ident():
            key = (code, offset)
            ln = _jump_line.get(key)
            if ln is None:
                ln = 0
                for (a, b, l) in code.co_lines():
                    if a <= offset < b:
                        ln = l or 0
                        break
                _jump_line[key] = ln
            s.line_point((short, ln, "loop"))
    return None


def line_monitoring(on):
    global _mon_ready
    mon = sys.monitoring
    if not _mon_ready:
        mon.use_tool_id(TOOL, "verif-sim")
        mon.register_callback(TOOL, mon.events.LINE, _on_line)
        mon.register_callback(TOOL, mon.events.JUMP, _on_jump)
        _mon_ready = True
    mon.set_events(TOOL, (mon.events.LINE | mon.events.JUMP) if on else 0)


def run_sim(sim, main_fn):
    """Run one simulation under the seams; returns sim.outcome.  GC is off during the run."""
    gc.collect()
    gc.disable()

    def main():
        reset_world()
        main_fn()

    try:
        if sim.line_mode:
            line_monitoring(True)
        try:
            return sim.run(main)
        finally:
            if sim.line_mode:
                line_monitoring(False)
            restore_world()
    finally:
        gc.enable()
