#!/venv/bin/python
"""Entry point: ./check <Cxx> [--tier quick|thorough] [--replay file]   (see DESIGN.md section 7)"""
import os
import sys

VERIF = os.path.dirname(os.path.abspath(__file__))


def main(argv):
    if os.environ.get("PYTHONHASHSEED") != "0" and not os.environ.get("VERIF_SELFTEST_CHILD"):
        e = dict(os.environ)
        e["PYTHONHASHSEED"] = "0"
        e["PYTHONDONTWRITEBYTECODE"] = "1"
        os.execve(sys.executable, [sys.executable, os.path.abspath(__file__)] + argv, e)
    sys.path.insert(0, VERIF)
    from harness import runner
    if argv and argv[0] == "--worker":
        (prop, tier, vseed, start, count, stride, wall) = argv[1:8]
        runner.worker_main(prop, tier, int(vseed), int(start), int(count), int(stride), float(wall))
        return 0
    if argv and argv[0] == "--minimise":
        runner.minimise_main(argv[1], argv[2], float(argv[3]))
        return 0
    if argv and argv[0] == "selftest":
        from harness import selftest
        return selftest.main(argv[1:])
    prop = argv[0].upper()
    tier = os.environ.get("VERIF_TIER", "quick")
    replay = None
    search = 0
    i = 1
    while i < len(argv):
        if argv[i] == "--tier":
            tier = argv[i + 1]
            i += 2
        elif argv[i] == "--replay":
            replay = argv[i + 1]
            i += 2
        elif argv[i] == "--search":
            search = int(argv[i + 1])
            i += 2
        else:
            raise SystemExit("unknown argument %r" % argv[i])
    return runner.check_main(prop, tier, replay, search)


if __name__ == "__main__":
    sys.exit(main(sys.argv[1:]))
