"""Check runner: fans a property's seeded runs out over worker processes, collects
violations, minimises and verifies replays, applies the known-findings file and writes the
evidence file.  See DESIGN.md sections 5 and 7.
"""
import faulthandler
import hashlib
import importlib
import json
import os
import random
import re
import subprocess
import sys
import time

VERIF = os.path.dirname(os.path.dirname(os.path.abspath(__file__)))
PY = sys.executable
M64 = (1 << 64) - 1


def splitmix64(x):
    x = (x + 0x9E3779B97F4A7C15) & M64
    z = x
    z = ((z ^ (z >> 30)) * 0xBF58476D1CE4E5B9) & M64
    z = ((z ^ (z >> 27)) * 0x94D049BB133111EB) & M64
    return z ^ (z >> 31)


def run_seed(vseed, prop, idx):
    h = int(hashlib.sha256(prop.encode()).hexdigest()[:8], 16)
    return splitmix64(splitmix64(vseed & M64) ^ splitmix64(h) ^ (idx * 0x9E3779B97F4A7C15 & M64))


def load_prop(prop):
    return importlib.import_module("props.%s" % prop.lower())


STRATS = [
    ("uniform", {}), ("sticky", {"p": 0.5}), ("sticky", {"p": 0.8}), ("sticky", {"p": 0.95}),
    ("pct", {"d": 1}), ("pct", {"d": 2}), ("pct", {"d": 3}),
    ("pb", {"d": 1}), ("pb", {"d": 2}), ("pb", {"d": 3}),
    ("rd", {"q": 0.1}), ("rd", {"q": 0.25}), ("rd", {"q": 0.5}),
    ("site", {"site_mod": 15}), ("site", {"site_mod": 40}), ("site", {"site_mod": 150}),
    ("place", {"kmax": 25}), ("place", {"kmax": 80}),
]


def draw_sim_cfg(rng, est=600, stall_ok=False, line_ok=True):
    """Swarm-style simulator configuration for one run (all drawn from the run's PRNG)."""
    (s, extra) = STRATS[rng.randrange(len(STRATS))]
    cfg = {"strategy": s, "seed": rng.getrandbits(48), "tick_ns": rng.choice([1, 1000, 37000])}
    cfg.update(extra)
    if s in ("pct", "pb"):
        line = line_ok and rng.random() < 0.7
        cfg["line_q"] = 1.0 if line else 0.0
        cfg["est"] = int(est * (8 if line else 1) * rng.choice([0.3, 1.0, 2.0]))
        # calibrated placement: measure the length of this very workload under a non-pre-emptive
        # schedule first, then draw the pre-emption / priority-change points uniformly over it
        cfg["calibrate"] = rng.random() < 0.3
    elif s in ("site", "place"):
        cfg["line_q"] = 1.0 if line_ok else 0.0
    elif s == "rd":
        cfg["line_q"] = 0.0
        cfg["max_hold"] = (50, 300, 2000)[splitmix64(cfg["seed"] ^ 0x5bd1e995) % 3]
    else:
        cfg["line_q"] = rng.choice([0.0, 0.0, 0.03, 0.15, 0.5]) if line_ok else 0.0
    cfg["line"] = cfg["line_q"] > 0
    if stall_ok and rng.random() < 0.25:
        cfg["stall_p"] = rng.choice([0.002, 0.01])
    # late timer wake-ups (derived from the run's seed without consuming the PRNG): timers due
    # within the window of the earliest one fire together, at the latest of their deadlines
    cfg["coalesce_ns"] = (0, 0, 0, 5000, 100000, 500000)[splitmix64(cfg["seed"]) % 6]
    if s != "uniform":
        # extra switch probability at yield points inside scripted user code
        cfg["user_q"] = (0.0, 0.0, 0.2, 0.5)[splitmix64(cfg["seed"] ^ 0x2545F491) % 4]
    return cfg


def prefer_place(cfg, p):
    """For workloads that place a client operation inside a window through a semantic trigger:
    with probability p (derived from the run's seed) use the `place` strategy, which sweeps the
    position of that operation relative to the thread inside the window."""
    h = splitmix64(cfg["seed"] ^ 0x9E3779B1)
    if (h % 1000) < int(p * 1000):
        for k in ("d", "p", "q", "site_mod", "max_hold", "est", "calibrate"):
            cfg.pop(k, None)
        if (h >> 16) % 3 == 0:
            # a third thread may be the one that has to be caught in its window: dense site-directed
            cfg.update({"strategy": "site", "site_mod": 15, "line_q": 1.0, "line": True})
        else:
            cfg.update({"strategy": "place", "kmax": (25, 80)[(h >> 12) & 1], "line_q": 1.0, "line": True})
    return cfg


class Result(object):
    pass


def execute(mod, spec, trace=None, stalls=None, strict=True):
    """One simulated run of `spec`.  With `trace`, the schedule is replayed instead of drawn."""
    from sim import core, seams
    from harness.env import Env
    seams.install(metrics=True)
    cfg = spec["sim"]
    if trace is not None:
        chooser = core.TraceChooser({int(a): b for (a, b) in trace},
                                    {int(a): b for (a, b) in (stalls or [])}, strict=strict)
    else:
        chooser = core.RandomChooser(cfg["seed"], cfg)
    sim = core.Sim(chooser, tick_ns=cfg.get("tick_ns", 1000), horizon_s=cfg.get("horizon_s", 3600.0),
                   line_mode=bool(cfg.get("line")), step_cap=cfg.get("step_cap", 150000))
    sim.coalesce_ns = cfg.get("coalesce_ns", 0)
    env = Env(sim, spec)
    r = Result()
    r.sim = sim
    r.env = env
    r.harness_error = None
    try:
        seams.run_sim(sim, lambda: mod.run(spec, env))
    except core.HarnessError as e:
        r.harness_error = str(e)
    r.outcome = sim.outcome
    r.viol = []
    if r.harness_error is None:
        for e in sim.log:
            if e[3] == "thread-died" and e[4].startswith("client"):
                r.harness_error = "client thread died: %r" % (e,)
                break
    if r.harness_error is None and sim.outcome and (sim.outcome[0] != "step-cap" or getattr(mod, "CHECK_STEPCAP", False)):
        try:
            r.viol = list(env.viol) + list(mod.check(spec, env) or [])
        except Exception as e:  # a bug in an oracle is a harness error, never a verdict
            import traceback
            r.harness_error = "oracle crashed: " + traceback.format_exc()[-1500:]
    if r.harness_error is None and sim.outcome and sim.outcome[0] in ("deadlock", "stuck") and getattr(mod, "PROP", "") != "C04":
        # the history oracles of a property do not judge a run that was cut short - but a run cut
        # short because threads block each other for ever on locks is itself a failure of whatever
        # the workload was exercising (the outcome the property promises never arrives).  Same
        # signatures as C04's oracle, so that a listed finding is recognised here too.
        try:
            from harness.oracles import deadlock_violations
            r.viol = list(r.viol) + deadlock_violations(sim, include_client_blocked=False)
        except Exception:
            import traceback
            r.harness_error = "oracle crashed: " + traceback.format_exc()[-1500:]
    r.sha = sim.log_sha()
    return r


# ----------------------------------------------------------------------------------------
# worker process
# ----------------------------------------------------------------------------------------
def worker_main(prop, tier, vseed, start, count, stride, wall_s):
    faulthandler.enable()
    faulthandler.dump_traceback_later(wall_s + 60, exit=True)
    sys.path.insert(0, VERIF)
    mod = load_prop(prop)
    t0 = time.monotonic()
    st = {"runs": 0, "steps": 0, "switches": 0, "preempt": 0, "lib_preempt": 0, "jumps": 0,
          "sim_ns": 0, "outcomes": {}, "strategies": {}, "probes": {}, "digests": set(),
          "harness_errors": 0, "step_caps": 0, "nontrivial": 0, "edges": set(), "pairs": set(),
          "samples": [], "truncated": False, "known_hits": {}, "lines": 0}
    out = sys.stdout
    idx = start
    done = 0
    seen_sigs = {}
    while done < count:
        if time.monotonic() - t0 > wall_s:
            st["truncated"] = True
            break
        seed = run_seed(vseed, prop, idx)
        rng = random.Random(seed)
        spec = mod.gen(rng, tier)
        spec["_idx"] = idx
        if spec["sim"].pop("calibrate", False):
            probe = json.loads(json.dumps(spec))
            probe["sim"].update({"strategy": "pb", "d": 0, "stall_p": 0})
            r0 = execute(mod, probe)
            if r0.harness_error is None and r0.sim.step > 10:
                spec["sim"]["est"] = r0.sim.step
                st["probes"]["calibrated-placement-runs"] = st["probes"].get("calibrated-placement-runs", 0) + 1
        r = execute(mod, spec)
        sim = r.sim
        st["runs"] += 1
        st["steps"] += sim.step
        st["switches"] += sim.switches
        st["preempt"] += sim.preemptions
        st["lib_preempt"] += sim.lib_preemptions
        st["jumps"] += sim.clock_jumps
        st["sim_ns"] += sim.now_ns
        oc = r.outcome[0] if r.outcome else "none"
        st["outcomes"][oc] = st["outcomes"].get(oc, 0) + 1
        sk = spec["sim"]["strategy"] + ("+line" if spec["sim"].get("line") else "")
        st["strategies"][sk] = st["strategies"].get(sk, 0) + 1
        if spec["sim"].get("stall_p"):
            st["probes"]["fault:thread-stall(runs)"] = st["probes"].get("fault:thread-stall(runs)", 0) + 1
            st["probes"]["fault:thread-stall(fired)"] = st["probes"].get("fault:thread-stall(fired)", 0) + len(sim.stalls)
        if spec["sim"]["strategy"] == "rd":
            st["probes"]["rd:two-threads-met-at-one-lock"] = st["probes"].get("rd:two-threads-met-at-one-lock", 0) + getattr(sim.chooser, "conflicts", 0)
        if spec["sim"].get("coalesce_ns"):
            st["probes"]["fault:late-timer-wake(runs)"] = st["probes"].get("fault:late-timer-wake(runs)", 0) + 1
            st["probes"]["fault:late-timer-wake(timers fired together)"] = st["probes"].get("fault:late-timer-wake(timers fired together)", 0) + sim.coalesced
        if r.harness_error:
            st["harness_errors"] += 1
            out.write(json.dumps({"t": "harness", "idx": idx, "err": r.harness_error[:2000],
                                  "spec": spec}) + "\n")
            out.flush()
        elif oc == "step-cap" and not r.viol:
            st["step_caps"] += 1
        else:
            try:
                pr = mod.probes(spec, r.env) or {}
            except Exception as e:
                pr = {"probe-error": 1}
            for k, v in pr.items():
                if v and not k.startswith("_"):
                    st["probes"][k] = st["probes"].get(k, 0) + int(v)
            nt = bool(pr.get("_nontrivial", sim.preemptions > 0))
            if nt:
                st["nontrivial"] += 1
                st["digests"].add(sim.digest)
            st["edges"].update(sim.lock_edges)
            if len(st["pairs"]) < 20000:
                st["pairs"].update(sim.pairs)
            if len(st["samples"]) < 2 and nt:
                st["samples"].append({"spec": spec, "outcome": list(map(_j, r.outcome)),
                                      "steps": sim.step, "switches": sim.switches,
                                      "sim_seconds": sim.now_ns / 1e9, "events": len(sim.log),
                                      "violations": [v["sig"] for v in r.viol]})
            for v in r.viol:
                n = seen_sigs.get(v["sig"], 0)
                seen_sigs[v["sig"]] = n + 1
                if n < 3:  # a few examples per signature are enough
                    out.write(json.dumps({"t": "viol", "idx": idx, "sig": v["sig"], "oracle": v["oracle"],
                                          "msg": v["msg"][:1500], "spec": spec, "sha": r.sha,
                                          "steps": sim.step, "preempt": sim.preemptions,
                                          "trace": sim.trace, "stalls": sim.stalls}) + "\n")
                    out.flush()
        idx += stride
        done += 1
    st["digests"] = sorted(st["digests"])
    st["edges"] = sorted(st["edges"])
    st["pairs"] = len(st["pairs"])
    st["sig_counts"] = seen_sigs
    st["wall"] = time.monotonic() - t0
    out.write(json.dumps({"t": "stats", "st": st}) + "\n")
    out.flush()
    faulthandler.cancel_dump_traceback_later()


def _j(x):
    if isinstance(x, (tuple, list)):
        return [_j(y) for y in x]
    return x


# ----------------------------------------------------------------------------------------
# known findings
# ----------------------------------------------------------------------------------------
def load_findings():
    p = os.path.join(VERIF, "findings", "known_findings.json")
    if not os.path.exists(p):
        return []
    with open(p) as f:
        return json.load(f)["findings"]


def match_finding(findings, prop, sig):
    for fd in findings:
        if fd.get("status") != "open":
            continue
        if prop not in fd.get("properties", [fd.get("property")]) and not fd.get("any_property"):
            continue
        for s in fd.get("signatures", []):
            if sig == s:
                return fd
        for s in fd.get("signature_patterns", []):
            if re.search(s, sig):
                return fd
    return None


# ----------------------------------------------------------------------------------------
# replay + minimisation (run inside a fresh child process by the parent)
# ----------------------------------------------------------------------------------------
def replay_file(path, quiet=False):
    """Returns (reproduced, info).  Exit-code logic is in main()."""
    sys.path.insert(0, VERIF)
    with open(path) as f:
        rp = json.load(f)
    mod = load_prop(rp["property"])
    r = execute(mod, rp["spec"], trace=rp.get("trace"), stalls=rp.get("stalls"), strict=True)
    sigs = [v["sig"] for v in r.viol]
    ok = rp["expect"]["sig"] in sigs
    same_sha = (r.sha == rp["expect"].get("sha"))
    info = {"outcome": _j(r.outcome), "sigs": sigs, "sha": r.sha, "same_sha": same_sha,
            "stacks": r.sim.final_stacks,
            "harness_error": r.harness_error,
            "msgs": [v["msg"] for v in r.viol if v["sig"] == rp["expect"]["sig"]][:1]}
    return ok, info


def replay_search(path, n):
    """Re-find the recorded violation by schedule search on the recorded workload (used for
    committed known-finding replays, whose exact decision traces go stale whenever unrelated
    code motion in /repo renumbers the yield points)."""
    with open(path) as f:
        rp = json.load(f)
    mod = load_prop(rp["property"])
    fam_of = getattr(mod, "family", lambda x: x)
    want = fam_of(rp["expect"]["sig"])
    base = rp["spec"]["sim"]["seed"]
    for k in range(n):
        spec = json.loads(json.dumps(rp["spec"]))
        spec["sim"]["seed"] = splitmix64(base + k) >> 16
        if k % 3 == 1:
            spec["sim"].update({"strategy": "uniform", "line_q": 0.15, "line": True})
        elif k % 3 == 2:
            spec["sim"].update({"strategy": "pb", "d": 2, "line_q": 1.0, "line": True, "est": 2000})
        r = execute(mod, spec)
        if r.harness_error is None and any(fam_of(v["sig"]) == want for v in r.viol):
            return True, {"schedule_seed_index": k, "sig": [v["sig"] for v in r.viol if fam_of(v["sig"]) == want][0]}
    return False, {}


def _count_preempt(trace):
    return len(trace)


def minimise(mod, spec, sig, trace, stalls, budget_s):
    """Delta-debug the spec (re-searching a few schedules per candidate), then the schedule."""
    t0 = time.monotonic()
    best_spec, best_trace, best_stalls = spec, trace, stalls
    info = {"spec_steps": 0, "sched_steps": 0, "trace_before": len(trace)}

    fam_of = getattr(mod, "family", lambda x: x)
    fam = fam_of(sig)

    def has_sig(r):
        return r.harness_error is None and any(fam_of(v["sig"]) == fam for v in r.viol)

    # 1. workload shrinking
    shrink = getattr(mod, "shrink", None)
    progress = True
    while shrink and progress and time.monotonic() - t0 < budget_s * 0.6:
        progress = False
        for cand in shrink(best_spec):
            if time.monotonic() - t0 > budget_s * 0.6:
                break
            found = None
            base_seed = cand["sim"]["seed"]
            for k in range(24):
                c2 = json.loads(json.dumps(cand))
                c2["sim"]["seed"] = base_seed if k == 0 else splitmix64(base_seed + k) >> 16
                try:
                    r = execute(mod, c2)
                except Exception:
                    break
                if has_sig(r):
                    found = (c2, r.sim.trace, r.sim.stalls)
                    break
                if time.monotonic() - t0 > budget_s * 0.6:
                    break
            if found:
                best_spec, best_trace, best_stalls = found
                info["spec_steps"] += 1
                progress = True
                break
    # 2. schedule shrinking: drop decisions in chunks, lenient replay, re-record
    trace_l = [list(x) for x in best_trace]
    chunk = max(len(trace_l) // 2, 1)
    while chunk >= 1 and trace_l and time.monotonic() - t0 < budget_s:
        i = 0
        shrunk = False
        while i < len(trace_l) and time.monotonic() - t0 < budget_s:
            cand = trace_l[:i] + trace_l[i + chunk:]
            try:
                r = execute(mod, best_spec, trace=cand, stalls=best_stalls, strict=False)
            except Exception:
                i += chunk
                continue
            if has_sig(r) and len(r.sim.trace) < len(trace_l):
                trace_l = [list(x) for x in r.sim.trace]
                info["sched_steps"] += 1
                shrunk = True
            else:
                i += chunk
        if chunk == 1 and not shrunk:
            break
        chunk = max(chunk // 2, 1) if chunk > 1 else (1 if shrunk else 0)
    # final strict run to fix the expected hash
    r = execute(mod, best_spec, trace=trace_l, stalls=best_stalls, strict=True)
    if not has_sig(r):
        # fall back to the unminimised schedule
        trace_l = [list(x) for x in best_trace]
        r = execute(mod, best_spec, trace=trace_l, stalls=best_stalls, strict=True)
        if not has_sig(r):
            return None
    info["trace_after"] = len(trace_l)
    info["steps"] = r.sim.step
    hit = [v for v in r.viol if fam_of(v["sig"]) == fam][0]
    msg = hit["msg"]
    info["sig"] = hit["sig"]
    events = [_scrub_ev(e) for e in r.sim.log]
    if len(events) > 500:
        events = events[:100] + ["... %d events omitted ..." % (len(events) - 500)] + events[-400:]
    return {"spec": best_spec, "trace": trace_l, "stalls": [list(x) for x in best_stalls],
            "sha": r.sha, "msg": msg, "info": info, "events": events,
            "outcome": _j(r.outcome), "stacks": r.sim.final_stacks}


def _scrub_ev(e):
    return "#%d t=%.6fs T%d %s" % (e[0], e[1] / 1e9, e[2], " ".join(str(x) for x in e[3:]))[:400]


def minimise_main(path_in, path_out, budget_s):
    sys.path.insert(0, VERIF)
    with open(path_in) as f:
        v = json.load(f)
    mod = load_prop(v["property"])
    res = minimise(mod, v["spec"], v["sig"], v["trace"], v["stalls"], budget_s)
    with open(path_out, "w") as f:
        json.dump(res, f)


# ----------------------------------------------------------------------------------------
# parent
# ----------------------------------------------------------------------------------------
def _child_env():
    e = dict(os.environ)
    e["PYTHONHASHSEED"] = "0"
    e["PYTHONDONTWRITEBYTECODE"] = "1"
    e["PYTHONPATH"] = VERIF
    return e


def repo_tree_id():
    repo = os.environ.get("VERIF_REPO", "/repo")
    try:
        h = subprocess.run(["git", "-C", repo, "rev-parse", "HEAD"], capture_output=True, text=True).stdout.strip()
        d = subprocess.run(["git", "-C", repo, "status", "--porcelain", "--", "more_executors"],
                           capture_output=True, text=True).stdout.strip()
        return h + ("+dirty" if d else "")
    except Exception:
        return "unknown"


def check_main(prop, tier, replay=None, search=0):
    script = os.path.join(VERIF, "simcheck.py")
    if replay and search:
        ok, info = replay_search(replay, search)
        print(json.dumps(info))
        if ok:
            print("VIOLATION property=%s replay=%s" % (prop, replay))
            print("recorded violation re-found by schedule search on the recorded workload")
            return 1
        print("schedule search on the recorded workload did not re-find the violation")
        return 0
    if replay:
        ok, info = replay_file(replay)
        st = info.pop("stacks", {})
        print(json.dumps(info)[:3000])
        for k in sorted(st):
            print("  thread %s:" % k)
            for fr in st[k]:
                print("      " + fr)
        if info["harness_error"]:
            print("HARNESS-ERROR %s" % info["harness_error"][:500])
            return 2
        if ok:
            print("VIOLATION property=%s replay=%s" % (prop, replay))
            print("replay reproduced%s" % (" (event log identical)" if info["same_sha"] else " (signature only; event log differs)"))
            return 1
        print("replay did not reproduce the recorded violation on this tree")
        return 0

    mod = load_prop(prop)
    vseed = int(os.environ.get("VERIF_SEED", "0"))
    jobs = int(os.environ.get("VERIF_JOBS", str(min(16, os.cpu_count() or 1))))
    plan = mod.PLAN[tier]
    runs = int(os.environ.get("VERIF_RUNS", plan["runs"]))
    wall = float(os.environ.get("VERIF_BUDGET_S", plan["wall_s"]))
    t0 = time.monotonic()
    findings = [] if os.environ.get("VERIF_IGNORE_KNOWN") else load_findings()
    rc = 0
    lines = []

    # 0. open known findings of this property: replay their committed replay files
    known_reported = {}
    for fd in findings:
        if fd.get("status") == "open" and prop in fd.get("properties", []):
            rp = fd.get("replay", {}).get(prop)
            state = "no replay file for this property"
            if rp and os.path.exists(os.path.join(VERIF, rp)):
                p = subprocess.run([PY, script, prop, "--replay", os.path.join(VERIF, rp)],
                                   capture_output=True, text=True, env=_child_env(), timeout=300)
                if p.returncode == 1:
                    state = "reproduced by %s" % rp
                else:
                    p = subprocess.run([PY, script, prop, "--replay", os.path.join(VERIF, rp), "--search", "600"],
                                       capture_output=True, text=True, env=_child_env(), timeout=600)
                    state = ("reproduced by schedule search on the workload of %s (its exact trace is stale for this tree)" % rp
                             if p.returncode == 1 else "no longer reproduces on this tree (exact trace and 600-schedule search)")
            known_reported[fd["id"]] = state

    # 1. fan out
    per = (runs + jobs - 1) // jobs
    procs = []
    for w in range(jobs):
        cmd = [PY, script, "--worker", prop, tier, str(vseed), str(w), str(per), str(jobs), str(wall)]
        procs.append(subprocess.Popen(cmd, stdout=subprocess.PIPE, stderr=subprocess.PIPE, text=True,
                                      env=_child_env()))
    agg = None
    viols = []
    harness = []
    worker_fail = 0
    for p in procs:
        try:
            so, se = p.communicate(timeout=wall + 120)
        except subprocess.TimeoutExpired:
            p.kill()
            so, se = p.communicate()
            worker_fail += 1
        if p.returncode != 0:
            worker_fail += 1
            sys.stderr.write(se[-3000:])
        for ln in so.splitlines():
            if not ln.startswith("{"):
                continue
            m = json.loads(ln)
            if m["t"] == "viol":
                viols.append(m)
            elif m["t"] == "harness":
                harness.append(m)
            elif m["t"] == "stats":
                agg = _merge(agg, m["st"])
    if agg is None:
        print("HARNESS-ERROR no worker produced statistics")
        return 2

    # 2. classify violations
    by_sig = {}
    for v in viols:
        by_sig.setdefault(v["sig"], []).append(v)
    sig_counts = agg["sig_counts"]
    new_sigs = []
    known_hits = {}
    for sig in sorted(by_sig):
        fd = match_finding(findings, prop, sig)
        if fd is not None:
            known_hits[fd["id"]] = known_hits.get(fd["id"], 0) + sig_counts.get(sig, 1)
        else:
            new_sigs.append(sig)

    # 3. minimise + verify + report new violations (one representative per signature family)
    REPLAYS = os.environ.get("VERIF_REPLAY_DIR", os.path.join(VERIF, "replays"))
    os.makedirs(REPLAYS, exist_ok=True)
    reported = []
    fam_of = getattr(mod, "family", lambda sig: sig)
    families = {}
    for sig in new_sigs:
        families.setdefault(fam_of(sig), []).append(sig)
    fam_list = sorted(families, key=lambda f: -sum(sig_counts.get(x, 1) for x in families[f]))
    for fam in fam_list[:5]:
        members = families[fam]
        cands = sorted((v for x in members for v in by_sig[x]), key=lambda v: (v["steps"], len(v["trace"])))
        v = cands[0]
        sig = v["sig"]
        sig8 = hashlib.sha256(sig.encode()).hexdigest()[:8]
        tmp_in = os.path.join(REPLAYS, ".min-%s-%s.in.json" % (prop, sig8))
        tmp_out = os.path.join(REPLAYS, ".min-%s-%s.out.json" % (prop, sig8))
        with open(tmp_in, "w") as f:
            json.dump({"property": prop, "spec": v["spec"], "sig": sig, "trace": v["trace"],
                       "stalls": v["stalls"]}, f)
        budget = float(os.environ.get("VERIF_MIN_S", "20" if tier == "quick" else "90"))
        res = None
        try:
            p = subprocess.run([PY, script, "--minimise", tmp_in, tmp_out, str(budget)],
                               capture_output=True, text=True, env=_child_env(), timeout=budget * 3 + 120)
            if p.returncode == 0 and os.path.exists(tmp_out):
                with open(tmp_out) as f:
                    res = json.load(f)
        except subprocess.TimeoutExpired:
            pass
        for t in (tmp_in, tmp_out):
            if os.path.exists(t):
                os.remove(t)
        if res is None:
            res = {"spec": v["spec"], "trace": v["trace"], "stalls": v["stalls"], "sha": v["sha"],
                   "msg": v["msg"], "info": {"minimised": False}}
        final_sig = res["info"].get("sig", sig)
        fd = match_finding(findings, prop, final_sig)
        if fd is not None:
            # the minimised form of this violation is an open known finding (its unminimised
            # signature was merely less specific): count it there instead of raising an alarm
            nfam = sum(sig_counts.get(x, 1) for x in members)
            known_hits[fd["id"]] = known_hits.get(fd["id"], 0) + nfam
            print("note: %d run(s) with signature family %r reduce, after minimisation, to known finding %s (%s)"
                  % (nfam, fam, fd["id"], final_sig[:160]))
            continue
        path = os.path.join(REPLAYS, "%s-%s-%d.json" % (prop, sig8, v["idx"]))
        with open(path, "w") as f:
            json.dump({"property": prop, "spec": res["spec"], "trace": res["trace"], "stalls": res["stalls"],
                       "expect": {"sig": res["info"].get("sig", sig), "sha": res["sha"]}, "message": res["msg"],
                       "minimisation": res["info"], "found_at": {"VERIF_SEED": vseed, "index": v["idx"], "tier": tier},
                       "outcome": res.get("outcome"), "thread_stacks_at_end": res.get("stacks"),
                       "history": res.get("events", []),
                       "history_format": "#<global event sequence> t=<virtual seconds> T<thread id> <event ...>; decisions in 'trace' are [scheduler step, thread id]",
                       "repo_tree": repo_tree_id(),
                       "how_to_replay": "cd /verif && ./check %s --replay %s" % (prop, os.path.relpath(path, VERIF))},
                      f, indent=1)
        p = subprocess.run([PY, script, prop, "--replay", path], capture_output=True, text=True,
                           env=_child_env(), timeout=300)
        if p.returncode == 1:
            print("VIOLATION property=%s replay=%s" % (prop, path))
            if "event log identical" not in p.stdout:
                print("  note: the replay reproduced the violation (same signature) in a fresh process but its event log "
                      "differs from the recorded one - the tree under test is not deterministic under the seams")
            print("  signature: %s" % sig)
            nfam = sum(sig_counts.get(x, 1) for x in members)
            print("  occurrences: %d of %d runs (%d signature variant(s) in this family); minimisation: %s"
                  % (nfam, agg["runs"], len(members), json.dumps(res["info"])))
            print("  " + res["msg"].replace("\n", "\n  ")[:1800])
            reported.append(sig)
            rc = 1
        else:
            print("HARNESS-ERROR violation %r did not replay exactly in a fresh process (rc=%s): %s" % (sig, p.returncode, p.stdout[-600:]))
            rc = max(rc, 2)
    for fam in fam_list[5:]:
        print("VIOLATION-UNMINIMISED property=%s signature-family=%s (%d runs)" % (prop, fam, sum(sig_counts.get(x, 1) for x in families[fam])))
        rc = rc or 1

    for fd in findings:
        if fd["id"] in known_reported:
            print("KNOWN-FINDING: property=%s %s [%s] (%s; %d matching runs in this exploration)" % (
                prop, fd["what_fails"], fd["id"], known_reported[fd["id"]], known_hits.get(fd["id"], 0)))
        elif known_hits.get(fd["id"]):
            # a finding listed for another property that also showed in this check's workload
            print("KNOWN-FINDING: property=%s %s [%s] (listed under %s; %d matching runs in this exploration)" % (
                prop, fd["what_fails"], fd["id"], ",".join(fd.get("properties", [])), known_hits[fd["id"]]))

    if harness:
        print("HARNESS-ERROR %d runs failed inside the harness; first: %s" % (len(harness), harness[0]["err"][:1500]))
        rc = max(rc, 2) if rc != 1 else 1
    if worker_fail:
        print("HARNESS-ERROR %d worker processes failed or were killed" % worker_fail)
        rc = 2 if rc == 0 else rc
    if agg["step_caps"] > max(5, agg["runs"] // 50):
        print("HARNESS-ERROR %d runs hit the step cap" % agg["step_caps"])
        rc = 2 if rc == 0 else rc

    wall_s = time.monotonic() - t0
    write_evidence(mod, prop, tier, vseed, agg, wall_s, len(new_sigs), known_hits, known_reported, jobs)
    print("%s %s: %d runs (%d non-trivial, %d distinct schedule digests), %.0f simulated s, %d new violation signature(s), %d known; %.1fs wall"
          % (prop, tier, agg["runs"], agg["nontrivial"], len(agg["digests"]), agg["sim_ns"] / 1e9, len(new_sigs), len(known_hits), wall_s))
    return rc


def _merge(a, b):
    if a is None:
        b["digests"] = set(b["digests"])
        b["edges"] = set(map(tuple, b["edges"]))
        return b
    for k in ("runs", "steps", "switches", "preempt", "lib_preempt", "jumps", "sim_ns", "harness_errors",
              "step_caps", "nontrivial", "pairs"):
        a[k] += b[k]
    for k in ("outcomes", "strategies", "probes", "sig_counts"):
        for kk, vv in b[k].items():
            a[k][kk] = a[k].get(kk, 0) + vv
    a["digests"].update(b["digests"])
    a["edges"].update(map(tuple, b["edges"]))
    if len(a["samples"]) < 3:
        a["samples"].extend(b["samples"][:1])
    a["truncated"] = a["truncated"] or b["truncated"]
    a["wall"] = max(a["wall"], b["wall"])
    return a


def _inversions(edges):
    """Pairs of lock classes (by creation site) acquired in both orders somewhere in the explored
    runs: potential AB-BA cycles.  Informational: a pair is a deadlock only if some schedule
    realises it on the same two lock instances, which the scheduler reports as a violation; pairs of
    the same class (e.g. outer future -> inner future) are hierarchical and listed separately."""
    es = set(tuple(e) for e in edges)
    out = []
    same = 0
    for (a, b) in sorted(es):
        if a == b:
            same += 1
        elif a < b and (b, a) in es:
            out.append([a, b])
    return {"distinct_class_pairs_taken_in_both_orders": out[:40], "same_class_nestings": same}


def write_evidence(mod, prop, tier, vseed, agg, wall_s, n_new, known_hits, known_reported, jobs):
    EVD = os.environ.get("VERIF_EVIDENCE_DIR", os.path.join(VERIF, "evidence"))
    os.makedirs(EVD, exist_ok=True)
    runs_per_hour = int(agg["runs"] / max(agg["wall"], 1e-6) * 3600)
    cov = {
        "evaluations": agg["runs"],
        "distinct_nontrivial": len(agg["digests"]),
        "rule": getattr(mod, "RULE", "") + " distinct = distinct schedule digests (hash of the sequence of "
                "(thread kind -> thread kind, yield site) context switches) among non-trivial runs.",
        "samples": agg["samples"][:3],
        "exhaustive": False,
        "nontrivial_runs": agg["nontrivial"],
        "simulated_runs_per_hour": runs_per_hour,
        "worker_processes": jobs,
        "simulated_seconds": round(agg["sim_ns"] / 1e9, 3),
        "scheduler_steps": agg["steps"],
        "context_switches": agg["switches"],
        "preemptions": agg["preempt"],
        "preemptions_inside_library_lines": agg["lib_preempt"],
        "clock_jumps": agg["jumps"],
        "termination_classes": agg["outcomes"],
        "strategies": agg["strategies"],
        "faults_and_probes_fired": agg["probes"],
        "distinct_preempted_site_resumed_kind_pairs_sum_over_workers": agg["pairs"],
        "lock_order_edges": len(agg["edges"]),
        "lock_order_inversions_by_creation_site": _inversions(agg["edges"]),
        "runs_hitting_step_cap": agg["step_caps"],
        "harness_errors": agg["harness_errors"],
        "truncated_by_wall_clock": agg["truncated"],
        "violation_signature_counts": agg["sig_counts"],
        "known_findings": {k: {"state": known_reported.get(k), "matching_runs": known_hits.get(k, 0)} for k in set(known_reported) | set(known_hits)},
        "real_vs_stub": {
            "more_executors/** (from %s)" % os.environ.get("VERIF_REPO", "/repo"): "real",
            "concurrent.futures._base / .thread": "real stdlib code on simulated primitives",
            "threading.{Lock,RLock,Condition,Event,Semaphore,Thread,Timer}, queue.{SimpleQueue,Queue,LifoQueue,PriorityQueue}, time.{monotonic,sleep,time}": "simulated (module globals rebound from /verif; function-local imports inside more_executors.* hooked)",
            "delegate executor": "real ThreadPoolExecutor / SyncExecutor and scripted SpyExecutor, per run",
            "prometheus_client": "stub (sim/promstub): PrometheusMetrics code paths run in every check",
            "logging": "real, disabled",
        },
        "repo_tree": repo_tree_id(),
    }
    ev = {
        "property_id": prop, "tier": tier, "seed": vseed, "level": "exploration", "coverage": cov,
        "assumptions": list(getattr(mod, "ASSUMPTIONS", [])) + [
            "sampling: a clean batch is evidence, not proof",
            "pre-emption granularity is the source line under CPython 3.12's GIL",
            "simulated threading primitives mirror CPython semantics (selftest prims)",
        ],
        "wall_s": round(wall_s, 2), "violations": n_new,
    }
    with open(os.path.join(EVD, "%s.json" % prop), "w") as f:
        json.dump(ev, f, indent=1, sort_keys=True)
