"""selftest mutants: apply each patch under /verif/mutants and /verif/seeded/*/patch.diff to a
scratch copy of the repository, run the property's quick check against it (VERIF_REPO) and
record whether it printed VIOLATION.  Scratch copies live under /tmp and are removed."""
import glob
import json
import os
import shutil
import subprocess
import sys
import time

from . import runner

VERIF = runner.VERIF


def _patches(only):
    out = []
    for p in sorted(glob.glob(os.path.join(VERIF, "mutants", "*.patch"))):
        name = os.path.basename(p)[:-6]
        props = name.split("-")[0].upper().split("_")
        out.append((name, p, props))
    for d in sorted(glob.glob(os.path.join(VERIF, "seeded", "*"))):
        p = os.path.join(d, "patch.diff")
        m = os.path.join(d, "meta.json")
        if os.path.exists(p) and os.path.exists(m):
            meta = json.load(open(m))
            props = meta.get("checks_expected_to_catch") or [meta["property"]]
            out.append(("seeded/" + os.path.basename(d), p, props))
    if only:
        out = [x for x in out if any(o in x[0] for o in only)]
    return out


def _benign(only):
    out = []
    for p in sorted(glob.glob(os.path.join(VERIF, "benign", "*.patch"))):
        name = "benign/" + os.path.basename(p)[:-6]
        first = open(p).readline()
        props = first.split(":", 1)[1].split() if first.startswith("# props:") else ["C%02d" % i for i in range(1, 21)]
        out.append((name, p, props))
    if only:
        out = [x for x in out if any(o in x[0] for o in only)]
    return out


def _write(results, benign, outname):
    os.makedirs(os.path.join(VERIF, "selftest"), exist_ok=True)
    name = outname or ("benign.json" if benign else "mutants.json")
    with open(os.path.join(VERIF, "selftest", name), "w") as f:
        json.dump({"repo_tree": runner.repo_tree_id(), "results": results}, f, indent=1)


def main(argv):
    only = [a for a in argv if not a.startswith("--")]
    benign = "--benign" in argv
    primary = "--primary" in argv      # seeded changes: only the check of the property they were written against
    runs = None
    outname = None
    for a in argv:
        if a.startswith("--runs="):
            runs = a.split("=")[1]
        if a.startswith("--out="):
            outname = a.split("=")[1]
    results = []
    repo = os.environ.get("VERIF_REPO", "/repo")
    for (name, patch, props) in (_benign(only) if benign else _patches(only)):
        work = "/tmp/verif-mut-%d-%s" % (os.getpid(), name.replace("/", "_"))
        shutil.rmtree(work, ignore_errors=True)
        os.makedirs(work)
        try:
            shutil.copytree(os.path.join(repo, "more_executors"), os.path.join(work, "more_executors"))
            p = subprocess.run(["patch", "-p1", "-s", "-i", patch], cwd=work, capture_output=True, text=True)
            if p.returncode != 0:
                results.append({"mutant": name, "error": "patch does not apply: " + (p.stdout + p.stderr)[-300:]})
                print("%-45s PATCH-FAILED" % name)
                continue
            for prop in (props[:1] if primary and name.startswith("seeded/") else props):
                e = dict(os.environ)
                e["VERIF_REPO"] = work
                e["VERIF_EVIDENCE_DIR"] = os.path.join(work, "evidence")
                e["VERIF_REPLAY_DIR"] = os.path.join(work, "replays")
                e["VERIF_MIN_S"] = "5"
                if runs:
                    e["VERIF_RUNS"] = runs
                t0 = time.time()
                q = subprocess.run([os.path.join(VERIF, "check"), prop, "--tier", "quick"], capture_output=True, text=True, env=e)
                viol = [l for l in q.stdout.splitlines() if l.startswith("VIOLATION")]
                sigs = [l.strip() for l in q.stdout.splitlines() if l.strip().startswith("signature:")]
                results.append({"mutant": name, "property": prop, "rc": q.returncode, "killed": q.returncode == 1 and bool(viol),
                                "signatures": sigs[:3], "wall_s": round(time.time() - t0, 1)})
                if benign:
                    results[-1]["quiet"] = q.returncode == 0 and not viol
                    if q.returncode not in (0, 1):
                        results[-1]["tail"] = (q.stdout + q.stderr)[-400:]
                    print("%-45s %s %-8s rc=%d %5.1fs %s" % (name, prop, "QUIET" if results[-1]["quiet"] else "ALARM", q.returncode,
                                                          time.time() - t0, (sigs[0][:110] if sigs else "")))
                else:
                    print("%-45s %s %-8s rc=%d %5.1fs %s" % (name, prop, "KILLED" if q.returncode == 1 and viol else "SURVIVED", q.returncode,
                                                          time.time() - t0, (sigs[0][:110] if sigs else "")))
                sys.stdout.flush()
            _write(results, benign, outname)     # incrementally: a long run cut short keeps what it has
        finally:
            shutil.rmtree(work, ignore_errors=True)
    _write(results, benign, outname)
    if benign:
        return 0 if all(r.get("quiet") for r in results) else 1
    return 0
