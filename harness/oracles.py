"""Oracles shared by several properties."""
import re

LOCKS = ("SimLock", "SimRLock")
_HARNESS_FILES = ("c0", "c1", "c2", "stackgen.py", "env.py", "runner.py", "driver.py", "model.py")


def lib_chain(frames, limit=3):
    """Where a thread blocks, as a stable string: the innermost `limit` library frames
    ('file.py:func<file.py:func', harness / user-code frames collapse to USER, stdlib
    concurrent.futures frames show as cf:func) plus markers for context further out that
    decides which locks are held: [via retry._submit_now] and [USER] (user code on the stack)."""
    toks = []
    for fr in frames:
        (fn, func, _line) = fr.rsplit(":", 2)
        if fn.startswith(_HARNESS_FILES):
            tok = "USER"
        elif fn in ("contextlib.py", "functools.py"):
            continue
        elif fn in ("_base.py", "thread.py"):
            tok = "cf:" + func
        else:
            tok = "%s:%s" % (fn, func)
        if toks and toks[-1] == tok:
            continue
        toks.append(tok)
    while toks and toks[-1] == "USER":
        toks.pop()
    marks = []
    if "retry.py:_submit_now" in toks:
        i = toks.index("retry.py:_submit_now")
        # only when blocked somewhere *inside* the delegate's submit() called by _submit_now,
        # i.e. while RetryExecutor._lock and the future's lock are held across foreign code
        if i >= 1 and toks[i - 1].rsplit(":", 1)[-1] in ("submit", "submit_timeout", "submit_retry"):
            marks.append("via retry._submit_now")
    if "USER" in toks:
        marks.append("USER")
    return "<".join(toks[:limit]) + ("[" + ",".join(marks) + "]" if marks else "")


def short_site(site):
    return re.sub(r"\.__init__", "", site or "?")


def deadlock_violations(sim, include_client_blocked=True):
    """Violations for lock cycles, locks held forever and busy-wait livelocks (C04's oracle).
    Signatures name the locks (creation sites) and, per thread, the library call chain in which
    it blocks - stable across seeds and schedules, specific to the defect."""
    oc = sim.outcome
    out = []
    st = sim.final_stacks
    if oc[0] == "deadlock":
        parts = []
        for (tname, site) in oc[1]:
            parts.append("%s@%s" % (short_site(site), lib_chain(st.get(tname, []))))
        sig = "deadlock|" + " || ".join(sorted(parts))
        out.append({"oracle": "lock-cycle", "sig": sig,
                    "msg": "wait-for cycle among threads blocked on locks:\n" + "\n".join(
                        "  %s wants %s (held by the next thread); stack: %s" % (t, s, " < ".join(st.get(t, [])[:12]))
                        for (t, s) in oc[1]) + "\nall blocked: %r" % (sim.final_blocked,)})
        return out
    seen = set()
    if oc[0] == "step-cap":
        spinner = oc[1]
        if sim.spin_jumps >= 3:
            for (name, typ, site, timed, owner, owner_blocked) in sim.final_blocked:
                if typ in LOCKS and not timed and owner and owner.rsplit("#", 1)[0] == spinner:
                    sig = "spin-holding-lock|%s@%s" % (short_site(site), lib_chain(st.get(owner, [])))
                    if sig not in seen:
                        seen.add(sig)
                        out.append({"oracle": "livelock", "sig": sig,
                                    "msg": "%s busy-waits (stack %r) while holding lock %s that %s needs; blocked: %r"
                                           % (spinner, st.get(owner, [])[:8], site, name, sim.final_blocked)})
        return out
    by_name = {b[0]: b for b in sim.final_blocked}
    for (name, typ, site, timed, owner, owner_blocked) in sim.final_blocked:
        if typ in LOCKS and not timed and owner_blocked:
            # follow the chain of lock holders to the thread everybody ultimately waits for
            root = owner
            hops = 0
            while root in by_name and by_name[root][4] and by_name[root][4] != root and hops < 8 \
                    and by_name[root][1] in LOCKS and not by_name[root][3]:
                root = by_name[root][4]
                hops += 1
            sig = "lock-held-forever|%s@%s" % (short_site(site), lib_chain(st.get(owner, [])))
            if root != owner:
                sig += "|root:" + lib_chain(st.get(root, []))
            if sig not in seen:
                seen.add(sig)
                out.append({"oracle": "lock-held-forever", "sig": sig,
                            "msg": "%s waits forever for lock %s held by %s, which is itself blocked forever (root of the chain: %s); blocked: %r; stacks: %r"
                                   % (name, site, owner, root, sim.final_blocked, st)})
    if include_client_blocked and oc[0] in ("stuck", "horizon") and not out:
        for (name, typ, site, timed, owner, owner_blocked) in sim.final_blocked:
            if name.startswith("client") and not timed and typ != "_Joiner":
                sig = "client-blocked|%s@%s" % (typ, lib_chain(st.get(name, [])))
                if owner:
                    sig += "|held-by:" + lib_chain(st.get(owner, []))
                out.append({"oracle": "client-blocked-forever", "sig": sig,
                            "msg": "client %s blocked forever in %s created at %s (outcome %s), lock holder %s at %r; blocked: %r; stack %r"
                                   % (name, typ, site, oc[0], owner, st.get(owner, [])[:8], sim.final_blocked, st.get(name))})
                break
    return out


def abnormal(sim):
    """True if the run was cut short (deadlock, hang, step cap): history oracles should not
    draw conclusions from a truncated history."""
    return sim.outcome is None or sim.outcome[0] not in ("clients-done", "quiescent")
