"""Differential self-test: scripted mini-programs give the same results on real `threading`
(sleep-sequenced) and on the simulated primitives (under several seeded schedules)."""
import queue as _rqueue
import threading as _rt
import time as _rtime

from sim import core, seams


class RealNS(object):
    Lock = staticmethod(_rt.Lock)
    RLock = staticmethod(_rt.RLock)
    Condition = staticmethod(_rt.Condition)
    Event = staticmethod(_rt.Event)
    Semaphore = staticmethod(_rt.Semaphore)
    SimpleQueue = staticmethod(_rqueue.SimpleQueue)
    Queue = staticmethod(_rqueue.Queue)
    Full = _rqueue.Full
    Thread = staticmethod(_rt.Thread)
    Timer = staticmethod(_rt.Timer)
    sleep = staticmethod(_rtime.sleep)
    Empty = _rqueue.Empty


class SimNS(object):
    Lock = core.SimLock
    RLock = core.SimRLock
    Condition = core.SimCondition
    Event = core.SimEvent
    Semaphore = core.SimSemaphore
    SimpleQueue = core.SimSimpleQueue
    Queue = core.SimQueue
    Full = _rqueue.Full
    Thread = core.SimThread
    Timer = core.SimTimer
    Empty = _rqueue.Empty

    @staticmethod
    def sleep(s):
        core.ACTIVE.sleep(s)


U = 0.03  # time unit (real seconds on the real side)


def p_lock_timeout(T, out):
    lk = T.Lock()

    def holder():
        lk.acquire()
        T.sleep(6 * U)
        lk.release()
    t = T.Thread(target=holder)
    t.start()
    T.sleep(U)
    out.append(("nb", lk.acquire(False)))
    out.append(("short", lk.acquire(True, 2 * U)))
    out.append(("long", lk.acquire(True, 30 * U)))
    out.append(("locked", lk.locked()))
    lk.release()
    t.join()
    # release from another thread is legal for Lock
    lk.acquire()
    t2 = T.Thread(target=lk.release)
    t2.start()
    t2.join()
    out.append(("released-by-other", lk.acquire(False)))


def p_rlock(T, out):
    rl = T.RLock()
    rl.acquire()
    rl.acquire()
    rl.acquire()
    res = []

    def other():
        res.append(rl.acquire(False))
        try:
            rl.release()
            res.append("released?!")
        except RuntimeError:
            res.append("RuntimeError")
    t = T.Thread(target=other)
    t.start()
    t.join()
    rl.release()
    rl.release()
    t = T.Thread(target=lambda: res.append(rl.acquire(False)))
    t.start()
    t.join()
    rl.release()

    def other2():
        res.append(rl.acquire(True, 10 * U))
        rl.release()
    t = T.Thread(target=other2)
    t.start()
    t.join()
    out.append(("rlock", res))


def p_condition(T, out):
    cv = T.Condition()
    woke = []

    def waiter(i, timeout):
        with cv:
            r = cv.wait(timeout)
            woke.append((i, r))
    ts = []
    for i in range(3):
        t = T.Thread(target=waiter, args=(i, None))
        t.start()
        ts.append(t)
        T.sleep(U)
    with cv:
        cv.notify(1)
    T.sleep(2 * U)
    out.append(("after notify(1)", list(woke)))
    with cv:
        cv.notify_all()
    for t in ts:
        t.join()
    out.append(("after notify_all", sorted(woke)))
    woke[:] = []
    t = T.Thread(target=waiter, args=(9, 2 * U))
    t.start()
    t.join()
    out.append(("timeout", list(woke)))
    try:
        cv.wait(0)
        out.append("no error?!")
    except RuntimeError:
        out.append("wait-unlocked-RuntimeError")
    with cv:
        out.append(("wait_for", cv.wait_for(lambda: False, 2 * U)))


def p_event(T, out):
    ev = T.Event()
    res = []
    t = T.Thread(target=lambda: res.append(ev.wait()))
    t.start()
    T.sleep(2 * U)
    ev.set()
    ev.clear()  # the waiter that was already waiting must still be released
    t.join()
    out.append(("set-then-clear", res, ev.is_set()))
    out.append(("wait-timeout", ev.wait(2 * U)))
    ev.set()
    out.append(("wait-set", ev.wait(), ev.wait(0)))


def p_semaphore(T, out):
    s = T.Semaphore(2)
    out.append(("a", s.acquire(), s.acquire(), s.acquire(False), s.acquire(True, 2 * U)))
    t = T.Thread(target=lambda: (T.sleep(2 * U), s.release()))
    t.start()
    out.append(("b", s.acquire(True, 20 * U)))
    t.join()
    z = T.Semaphore(0)
    out.append(("c", z.acquire(timeout=0)))


def p_queue(T, out):
    q = T.SimpleQueue()
    try:
        q.get(True, 2 * U)
        out.append("no Empty?!")
    except T.Empty:
        out.append("Empty")
    try:
        q.get_nowait()
    except T.Empty:
        out.append("Empty-nowait")
    q.put(1)
    q.put(2)
    out.append(("fifo", q.get(), q.get(), q.empty(), q.qsize()))
    res = []
    t = T.Thread(target=lambda: res.append(q.get()))
    t.start()
    T.sleep(2 * U)
    q.put("x")
    t.join()
    out.append(("blocking-get", res))


def p_full_queue(T, out):
    q = T.Queue(2)
    try:
        q.get(True, 2 * U)
        out.append("no Empty?!")
    except T.Empty:
        out.append("Empty")
    q.put(1)
    q.put(2)
    try:
        q.put(3, True, 2 * U)
        out.append("no Full?!")
    except T.Full:
        out.append("Full")
    res = []

    def consumer():
        T.sleep(3 * U)
        for _ in range(3):
            res.append(q.get())
            q.task_done()
    t = T.Thread(target=consumer)
    t.start()
    q.put(3)            # blocks until the consumer makes room
    q.join()
    t.join()
    out.append(("bounded", res, q.empty(), q.qsize()))


def p_timer(T, out):
    res = []
    a = T.Timer(2 * U, res.append, ["a"])
    b = T.Timer(6 * U, res.append, ["b"])
    c = T.Timer(4 * U, lambda x=None: res.append(("c", x)), kwargs={"x": 1})
    for t in (a, b, c):
        t.daemon = True
        t.start()
    T.sleep(3 * U)
    out.append(("after-3", list(res), a.is_alive()))
    b.cancel()
    T.sleep(5 * U)
    for t in (a, b, c):
        t.join()
    out.append(("end", res, b.is_alive()))


def p_join(T, out):
    t = T.Thread(target=lambda: T.sleep(6 * U))
    t.daemon = True
    t.start()
    t.join(U)
    out.append(("alive-after-short-join", t.is_alive()))
    t.join()
    out.append(("alive-after-join", t.is_alive()))
    t2 = T.Thread(target=lambda: None)
    try:
        t2.join()
        out.append("join-before-start?!")
    except RuntimeError:
        out.append("join-before-start-RuntimeError")
    res = []
    holder = []

    def selfjoin():
        try:
            holder[0].join()
            res.append("joined-self?!")
        except RuntimeError:
            res.append("join-self-RuntimeError")
    t3 = T.Thread(target=selfjoin)
    holder.append(t3)
    t3.start()
    t3.join()
    out.append(res)


PROGRAMS = [p_lock_timeout, p_rlock, p_condition, p_event, p_semaphore, p_queue, p_full_queue, p_timer, p_join]


def run_real(p):
    out = []
    p(RealNS, out)
    return out


def run_sim(p, seed, strategy):
    out = []
    sim = core.Sim(core.RandomChooser(seed, {"strategy": strategy, "p": 0.8, "d": 2, "est": 100, "line_q": 0.0}),
                   tick_ns=1000)
    seams.run_sim(sim, lambda: p(SimNS, out))
    if sim.outcome[0] != "clients-done":
        out.append(("OUTCOME", sim.outcome))
    return out


def main():
    seams.install(metrics=True)
    bad = 0
    for p in PROGRAMS:
        real = run_real(p)
        sims = set()
        for seed in range(12):
            s = run_sim(p, seed, ["uniform", "sticky", "pct", "pb"][seed % 4])
            sims.add(repr(s))
        if sims != {repr(real)}:
            bad += 1
            print("prims %s: MISMATCH\n  real: %r\n  sim:  %s" % (p.__name__, real, "\n        ".join(sorted(sims))))
        else:
            print("prims %s: real threading and simulated primitives agree (12 schedules)" % p.__name__)
    print("prims: %s" % ("ok" if not bad else "FAILED"))
    return 0 if not bad else 2
