"""Sequential reference model of an executor stack (written from the documented semantics,
not from the code): expected terminal outcome, number of callable invocations and a virtual
time bound for one submission.
"""
from .env import ERR_CLASSES
from .stackgen import beh


class Outcome(object):
    __slots__ = ("kind", "value", "tag", "cls")

    def __init__(self, kind, value=None, tag=None, cls=None):
        self.kind = kind      # 'val' | 'exc' | 'typeerror'
        self.value = value
        self.tag = tag        # for 'exc': the ScriptedError tag (identity via env.excs)
        self.cls = cls

    def __repr__(self):
        if self.kind == "val":
            return "val(%r)" % (self.value,)
        if self.kind == "exc":
            return "exc(%s %r)" % (self.cls, self.tag)
        return self.kind


def eval_sub(spec, s):
    return _eval(spec, s)[:4]


def _eval(spec, s):
    """Returns (Outcome, calls, work_time, retry_sleep_time, delays) for submission id `s`.

    work_time: virtual seconds the submission itself needs if nothing else competes
    (callable durations + poll waits); retry_sleep_time: sum of configured back-off delays."""
    sub = spec["subs"][str(s)]
    script = sub.get("script") or (["ErrA"] * sub.get("fail", 0) + ["ok"])
    layers = spec["layers"]
    st = {"calls": 0, "work": 0.0, "sleep": 0.0, "unknown": False, "delays": []}

    def base():
        st["calls"] += 1
        n = st["calls"]
        st["work"] += sub.get("dur", 0)
        o = script[min(n - 1, len(script) - 1)]
        if o == "ok":
            return Outcome("val", value=("v", s, n))
        return Outcome("exc", tag=("v", s, n), cls=o)

    def level(i):
        o = level_(i)
        if o.kind == "unknown":
            st["unknown"] = True
        return o

    def level_(i):
        if i == 0:
            return base()
        L = layers[i - 1]
        t = L["t"]
        li = i - 1
        if t in ("throttle", "timeout", "cos"):
            return level(i - 1)
        if t == "map":
            o = level(i - 1)
            if o.kind == "unknown":
                return o
            if o.kind == "val":
                b = beh(L, "fn", o.value)
                if b is None:
                    return o
                if b == "raise":
                    return Outcome("exc", tag=("map", li, o.value), cls="ScriptedError")
                return Outcome("val", value=("m", li, o.value))
            if o.kind == "exc":
                b = beh(L, "err", o.tag)
                if b is None or b == "reraise":
                    return o
                if b == "raise":
                    return Outcome("exc", tag=("err", li, o.tag), cls="ScriptedError")
                return Outcome("val", value=("e", li, o.tag))
            # typeerror: an ordinary exception for error_fn
            b = L.get("err")
            b = b.get("default") if isinstance(b, dict) else b
            if b is None or b == "reraise":
                return o
            return Outcome("unknown")
        if t == "flat_map":
            o = level(i - 1)
            if o.kind == "unknown":
                return o
            if o.kind == "val":
                b = beh(L, "fn", o.value)
                if b is None:
                    return o  # the default fn is f_return: identity after flattening
                if b == "raise":
                    return Outcome("exc", tag=("flat", li, o.value), cls="ScriptedError")
                if b == "nonfuture":
                    return Outcome("typeerror")
                if b == "retexc":
                    return Outcome("exc", tag=("flatexc", li, o.value), cls="ScriptedError")
                return Outcome("val", value=("fm", li, o.value))
            if o.kind == "exc":
                b = beh(L, "err", o.tag)
                if b is None or b == "reraise":
                    return o
                return Outcome("val", value=("fe", li, o.tag))
            b = L.get("err")
            b = b.get("default") if isinstance(b, dict) else b
            if b is None or b == "reraise":
                return o
            return Outcome("unknown")
        if t == "retry":
            attempt = 1
            p = L.get("policy")
            while True:
                o = level(i - 1)
                if o.kind == "unknown":
                    return o
                if p and p.get("kind") == "exception":
                    if o.kind == "val" or attempt >= p.get("max_attempts", 3):
                        return o
                    bases = p.get("exception_base")
                    if bases is not None:
                        if o.kind != "exc":
                            return o
                        cls = ERR_CLASSES[o.cls]
                        if not any(issubclass(cls, ERR_CLASSES[b]) for b in bases):
                            return o
                    d = min(p.get("sleep", 1.0) * (p.get("exponent", 2.0) ** (attempt - 1)), p.get("max_sleep", 120))
                    st["sleep"] += d
                    st["delays"].append(d)
                elif p and p.get("kind") == "base":
                    return o
                elif p:
                    if p.get("raise_should") == attempt:
                        return o
                    retry = attempt < p.get("max", 3) and (o.kind != "val" if p.get("on", "exc") == "exc" else True)
                    if retry and p.get("raise_sleep") == attempt:
                        return o
                    if not retry:
                        return o
                    st["sleep"] += p.get("sleep", 0)
                    st["delays"].append(p.get("sleep", 0))
                else:
                    if o.kind == "val" or attempt >= L.get("max_attempts", 3):
                        return o
                    bases = L.get("exception_base")
                    if bases is not None:
                        if o.kind != "exc":
                            # TypeError etc. is not a ScriptedError subclass
                            return o
                        cls = ERR_CLASSES[o.cls]
                        if not any(issubclass(cls, ERR_CLASSES[b]) for b in bases):
                            return o
                    d = min(L.get("sleep", 1.0) * (L.get("exponent", 2.0) ** (attempt - 1)), L.get("max_sleep", 120))
                    st["sleep"] += d
                    st["delays"].append(d)
                attempt += 1
        if t == "poll":
            o = level(i - 1)
            if o.kind != "val":
                return o  # failures (and unknown) pass through
            # first sighting at registration (immediate poll), one interval per further sighting
            st["work"] += (L.get("after", 1) - 1) * (L.get("ret") or L.get("interval", 5.0))
            if beh(L, "out", o.value) == "exc":
                return Outcome("exc", tag=("poll", li, o.value), cls="ScriptedError")
            return Outcome("val", value=("p", li, o.value))
        raise ValueError(t)

    o = level(len(layers))
    if st["unknown"]:
        # an error_fn turned a library-made exception (TypeError text) into a value: the model
        # does not predict that text, so neither outcome nor invocation count is claimed
        return Outcome("unknown"), None, st["work"], st["sleep"], st["delays"]
    return o, st["calls"], st["work"], st["sleep"], st["delays"]


def eval_full(spec, s):
    """Like eval_sub, as a dict that also has the list of expected back-off delays."""
    (o, calls, work, slp, delays) = _eval(spec, s)
    return {"outcome": o, "calls": calls, "work": work, "sleep": slp, "delays": delays}


def matches(env, o, fut_state):
    """fut_state: ('val', value) | ('exc', exception object) | ('cancelled',) | ('pending',).
    Returns None if it matches Outcome o, else a description of the difference."""
    if o.kind == "unknown":
        return None
    if fut_state[0] == "pending":
        return "future still pending, expected %r" % (o,)
    if fut_state[0] == "cancelled":
        return "future cancelled, expected %r" % (o,)
    if o.kind == "val":
        if fut_state[0] != "val":
            return "expected value %r, got exception %r" % (o.value, fut_state[1])
        if _norm(fut_state[1]) != _norm(o.value):
            return "expected value %r, got %r" % (o.value, fut_state[1])
        return None
    if o.kind == "typeerror":
        if fut_state[0] != "exc" or not isinstance(fut_state[1], TypeError):
            return "expected TypeError, got %r" % (fut_state[1:],)
        return None
    if fut_state[0] != "exc":
        return "expected exception %s%r, got value %r" % (o.cls, o.tag, fut_state[1])
    want = env.excs.get(repr(_norm_t(o.tag)))
    e = fut_state[1]
    if want is None:
        return "expected exception tagged %r was never raised; got %r" % (o.tag, e)
    if e is not want:
        return "expected the very exception object tagged %r (%s), got %r" % (o.tag, o.cls, e)
    return None


def _norm(x):
    if isinstance(x, (tuple, list)):
        return tuple(_norm(y) for y in x)
    return x


def _norm_t(x):
    return _norm(x)
