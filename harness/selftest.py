"""Self-tests of the machinery itself (DESIGN.md 3.5): determinism, replay fidelity, primitives."""
import hashlib
import json
import os
import random
import subprocess
import sys
import time

from . import runner

VERIF = runner.VERIF


def _props():
    out = []
    for f in sorted(os.listdir(os.path.join(VERIF, "props"))):
        if f.startswith("c") and f.endswith(".py"):
            out.append(f[:-3].upper())
    return out


def _digest_block(prop, lo, hi, vseed=0, replay=True):
    """sha of the event-log shas of runs lo..hi-1; every run is executed twice (second time
    from its recorded decision trace) and the two logs must be identical."""
    mod = runner.load_prop(prop)
    h = hashlib.sha256()
    for idx in range(lo, hi):
        rng = random.Random(runner.run_seed(vseed, prop, idx))
        spec = mod.gen(rng, "quick")
        spec["sim"].pop("calibrate", None)
        r1 = runner.execute(mod, spec)
        if r1.harness_error:
            raise SystemExit("selftest: harness error in %s idx %d: %s" % (prop, idx, r1.harness_error))
        if replay:
            r2 = runner.execute(mod, spec, trace=r1.sim.trace, stalls=r1.sim.stalls, strict=True)
            if r2.sha != r1.sha or r2.harness_error:
                raise SystemExit("selftest: trace replay of %s idx %d diverged (%s)" % (prop, idx, r2.harness_error))
        h.update(r1.sha.encode())
    return h.hexdigest()


def determinism(n, props=None):
    """n runs per property: (a) twice in this process with other runs in between, (b) replayed
    from the decision trace, (c) in a fresh interpreter, (d) under another PYTHONHASHSEED."""
    props = props or _props()
    ok = True
    t0 = time.time()
    for prop in props:
        a = _digest_block(prop, 0, n)
        _digest_block(prop, n, n + 5, replay=False)       # unrelated runs in between
        b = _digest_block(prop, 0, n, replay=False)
        outs = []
        for hs in ("0", "12345"):
            e = dict(os.environ)
            e["PYTHONHASHSEED"] = hs
            e["PYTHONDONTWRITEBYTECODE"] = "1"
            e["VERIF_SELFTEST_CHILD"] = "1"
            p = subprocess.run([sys.executable, os.path.join(VERIF, "simcheck.py"), "selftest", "digest", prop, "0", str(n)],
                               capture_output=True, text=True, env=e, timeout=600)
            outs.append(p.stdout.strip().splitlines()[-1] if p.stdout.strip() else "ERR " + p.stderr[-300:])
        same = (a == b == outs[0] == outs[1])
        print("determinism %s: %d runs x (in-process twice, trace replay, fresh interpreter, PYTHONHASHSEED=12345): %s"
              % (prop, n, "identical" if same else "DIFFERENT %r" % ([a[:12], b[:12]] + [o[:12] for o in outs])))
        ok = ok and same
    print("determinism: %s in %.1fs" % ("ok" if ok else "FAILED", time.time() - t0))
    return 0 if ok else 2


def main(argv):
    cmd = argv[0] if argv else "setup"
    if cmd == "digest":
        # child mode: must not re-exec with PYTHONHASHSEED=0 (handled in simcheck via env flag)
        print(_digest_block(argv[1], int(argv[2]), int(argv[3]), replay=False))
        return 0
    if cmd == "setup":
        sys.path.insert(0, VERIF)
        from sim import seams
        seams.install(metrics=True)
        import more_executors
        print("library under test:", os.path.dirname(more_executors.__file__))
        from . import primtest
        rc = primtest.main()
        return rc or determinism(12)
    if cmd == "determinism":
        n = int(argv[1]) if len(argv) > 1 else 150
        return determinism(n, argv[2:] or None)
    if cmd == "prims":
        from . import primtest
        return primtest.main()
    if cmd == "mutants":
        from . import mutants
        return mutants.main(argv[1:])
    raise SystemExit("unknown selftest %r" % cmd)
