"""Random executor stacks with scripted, attributable user functions (shared by several
properties).  All behaviour is a pure function of the JSON spec and of the values flowing
through, so a sequential reference evaluation (harness/model.py) is well defined whatever
the interleaving.
"""
from concurrent.futures import Future

from .env import ERR_CLASSES, ScriptedError, sub_of, desc
from sim.core import _scrub

LAYER_TYPES = ["map", "flat_map", "retry", "poll", "throttle", "timeout", "cos"]


def beh(layer, key, value):
    """Behaviour of user function `key` of `layer` for `value`: per-submission override or default."""
    b = layer.get(key)
    if isinstance(b, dict):
        s = sub_of(value)
        return b.get("subs", {}).get(str(s), b.get("default"))
    return b


def gen_layers(rng, depth, allow=LAYER_TYPES, nsubs=4, faults=True, fast=True):
    layers = []
    for i in range(depth):
        t = rng.choice(allow)
        L = {"t": t}
        if t == "map":
            L["fn"] = rng.choice([None, "wrap", "wrap", _by_sub(rng, nsubs, "wrap", ["raise"]) if faults else "wrap"])
            L["err"] = rng.choice([None, None, "wrap", "reraise", "raise"]) if faults else None
        elif t == "flat_map":
            L["fn"] = rng.choice([None, "ret", "ret", "aux"] + (["nonfuture", "raise", "retexc"] if faults else []))
            if L["fn"] in ("nonfuture", "raise", "retexc"):
                L["fn"] = _by_sub(rng, nsubs, "ret", [L["fn"]])
            L["err"] = rng.choice([None, None, None, "ret", "reraise"]) if faults else None
        elif t == "retry":
            L["max_attempts"] = rng.choice([1, 2, 3, 4])
            L["sleep"] = rng.choice([0, 0.05, 0.5] if fast else [0, 0.05, 1.0, 2.5])
            L["exponent"] = rng.choice([1, 2, 3])
            L["max_sleep"] = rng.choice([1, 4, 120])
            if rng.random() < 0.3:
                L["exception_base"] = rng.choice([["ErrA"], ["ErrA", "ErrB"], ["ErrB"]])
        elif t == "poll":
            L["interval"] = rng.choice([0.5, 1.0, 5.0])
            L["after"] = rng.choice([1, 1, 2, 3])
            L["out"] = _by_sub(rng, nsubs, "ok", ["exc"]) if faults and rng.random() < 0.4 else "ok"
            L["cancel_fn"] = rng.choice([None, None, "true", "false"])
        elif t == "throttle":
            L["count"] = rng.choice([1, 2, 3])
            L["block"] = rng.random() < 0.2
        elif t == "timeout":
            L["timeout"] = 5000.0
        layers.append(L)
    return layers


def _by_sub(rng, nsubs, default, alts):
    subs = {}
    for s in range(nsubs):
        if rng.random() < 0.35:
            subs[str(s)] = rng.choice(alts)
    return {"default": default, "subs": subs}


class Fns(object):
    """User functions for build_stack: map/err/flat/poll/cancel/count functions, recording
    every invocation in the history (`ufn` events) and supporting nested submission."""

    def __init__(self, env):
        self.env = env
        self.chain = None      # set after the stack is built: executors, chain[i+1] owns layer i
        self.aux = None        # auxiliary executor for flat_map 'aux'
        self.sightings = {}
        self.nest_counts = {}
        self.nest_hook = None  # callable(layer_index_or_None, where) performing a nested submission

    def get(self):
        return {"map_fn": self.map_fn, "err_fn": self.err_fn, "flat_fn": self.flat_fn,
                "flat_err_fn": self.flat_err_fn, "poll_fn": self.poll_fn, "cancel_fn": self.cancel_fn,
                "count_fn": self.count_fn, "policy": self.policy}

    def _nest(self, layer, where, value=None):
        """Nested submission from inside a user function; nested (leaf) work never nests again."""
        if self.nest_hook is None or not layer.get("nest"):
            return
        if value is not None and sub_of(value) == "leaf":
            return
        k = (layer["_i"], where)
        self.nest_counts[k] = self.nest_counts.get(k, 0) + 1
        if where == "poll" and self.nest_counts[k] > 2:
            return
        self.nest_hook(layer["_i"], where)

    def _user_window(self, kind, i, x):
        """Mapping functions are pre-emptible user code: a trigger for client operations that want
        to land while one is executing, and a yield point."""
        self.env.hit("fn-enter")
        self.env.sim.yield_point("user-fn")

    def map_fn(self, layer):
        env = self.env
        i = layer["_i"]

        def fn(x):
            b = beh(layer, "fn", x)
            env.rec("ufn", "map", i, desc(x), b)
            self._user_window("map", i, x)
            try:
                self._nest(layer, "map", x)
                if b == "raise":
                    raise env.exc(("map", i, x))
                return ("m", i, x)
            finally:
                env.rec("ufn-end", "map", i, sub_of(x))
        return fn

    def err_fn(self, layer):
        env = self.env
        i = layer["_i"]

        def fn(ex):
            b = beh(layer, "err", ex)
            env.rec("ufn", "err", i, desc(ex), b)
            self._nest(layer, "err", ex)
            if b == "reraise":
                raise ex
            if b == "raise":
                raise env.exc(("err", i, getattr(ex, "tag", _scrub(str(ex)))))
            return ("e", i, getattr(ex, "tag", _scrub(str(ex))))
        return fn

    def flat_fn(self, layer):
        env = self.env
        i = layer["_i"]
        from more_executors.futures import f_return, f_return_error

        def fn(x):
            b = beh(layer, "fn", x)
            env.rec("ufn", "flat", i, desc(x), b)
            self._user_window("flat", i, x)
            try:
                self._nest(layer, "flat", x)
                if b == "raise":
                    raise env.exc(("flat", i, x))
                if b == "nonfuture":
                    return ("nf", i, x)
                if b == "retexc":
                    return f_return_error(env.exc(("flatexc", i, x)))
                if b == "aux" and self.aux is not None:
                    return self.aux.submit(lambda: ("fm", i, x))
                return f_return(("fm", i, x))
            finally:
                env.rec("ufn-end", "flat", i, sub_of(x))
        return fn

    def flat_err_fn(self, layer):
        env = self.env
        i = layer["_i"]
        from more_executors.futures import f_return

        def fn(ex):
            b = beh(layer, "err", ex)
            env.rec("ufn", "flaterr", i, desc(ex), b)
            if b == "reraise":
                raise ex
            return f_return(("fe", i, getattr(ex, "tag", _scrub(str(ex)))))
        return fn

    def poll_fn(self, layer):
        env = self.env
        i = layer["_i"]
        seen = self.sightings.setdefault(i, {})

        ncall = [0]

        def fn(descriptors):
            ncall[0] += 1
            env.rec("ufn", "poll", i, len(descriptors))
            self._nest(layer, "poll")
            if ncall[0] in layer.get("raise_at", ()):
                env.rec("ufn", "poll-raise", i, ncall[0])
                raise env.exc(("pollfn", i, ncall[0]))
            for d in descriptors:
                v = d.result
                k = repr(desc(v))
                seen[k] = seen.get(k, 0) + 1
                if seen[k] >= layer.get("after", 1):
                    if beh(layer, "out", v) == "exc":
                        d.yield_exception(env.exc(("poll", i, v)))
                    else:
                        d.yield_result(("p", i, v))
            env.rec("ufn-end", "poll", i)
            return layer.get("ret")
        return fn

    def cancel_fn(self, layer):
        env = self.env
        i = layer["_i"]

        def fn(result):
            b = layer.get("cancel_fn")
            env.rec("ufn", "cancelfn", i, desc(result), b)
            d = beh(layer, "cancel_dur", result)
            if d:
                env.sim.sleep(d)    # e.g. a cancel function talking to a remote service
            if b == "raise":
                raise env.exc(("cancelfn", i))
            return b == "true"
        return fn

    def count_fn(self, layer):
        env = self.env
        i = layer["_i"]
        seq = layer["count"]["seq"]
        n = [0]

        def fn():
            # the count callable is pre-emptible user code; the pre-emption point sits before the
            # value is decided, so that "recorded" and "returned" stay one atomic step for the oracle
            env.sim.yield_point("user-count")
            k = seq[min(n[0], len(seq) - 1)]
            n[0] += 1
            env.rec("ufn", "count", i, k)
            if k == "raise":
                raise env.exc(("count", i, n[0]))
            return k
        return fn

    def policy(self, layer):
        from more_executors.retry import RetryPolicy, ExceptionRetryPolicy
        env = self.env
        i = layer["_i"]
        p = layer["policy"]

        def who(future):
            e = future.exception()
            return sub_of(e if e is not None else future.result())

        if p.get("kind") == "base":
            return RetryPolicy()    # the documented base class: never retries

        if p.get("kind") == "exception":
            kw = {k: p[k] for k in ("max_attempts", "sleep", "exponent", "max_sleep") if k in p}
            if "exception_base" in p:
                kw["exception_base"] = [ERR_CLASSES[c] for c in p["exception_base"]]

            class R(ExceptionRetryPolicy):
                """The library's own policy; the subclass only records the consultations."""

                def should_retry(self, attempt, future):
                    r = ExceptionRetryPolicy.should_retry(self, attempt, future)
                    env.rec("ufn", "should_retry", i, attempt, who(future), bool(r))
                    return r

                def sleep_time(self, attempt, future):
                    r = ExceptionRetryPolicy.sleep_time(self, attempt, future)
                    env.rec("ufn", "sleep_time", i, attempt, who(future), r)
                    return r
            return R(**kw)

        class P(RetryPolicy):
            def should_retry(self, attempt, future):
                env.rec("ufn", "should_retry", i, attempt, who(future), None)
                env.hit("should-retry")
                env.sim.yield_point("user-policy")
                if p.get("raise_should") == attempt:
                    raise env.exc(("should_retry", i, attempt))
                if attempt >= p.get("max", 3):
                    return False
                if p.get("on", "exc") == "exc":
                    return future.exception() is not None
                return True

            def sleep_time(self, attempt, future):
                env.rec("ufn", "sleep_time", i, attempt, who(future), None)
                if p.get("raise_sleep") == attempt:
                    raise env.exc(("sleep_time", i, attempt))
                return p.get("sleep", 0)
        if p.get("inherit_sleep"):
            del P.sleep_time      # only should_retry overridden: the base class's delay of 0 applies
        return P()
