"""Per-run environment shared by all property scenarios: history recording, client threads,
the scripted delegate executor (`SpyExecutor`), spy futures, unique values / exceptions and
the builder that turns a JSON layer list into a real more_executors stack.
"""
from concurrent.futures import CancelledError, Executor, Future

from sim import core


class ScriptedError(Exception):
    """Unique exception objects raised by scripted user code; `tag` identifies the raise site."""

    def __init__(self, tag):
        Exception.__init__(self, tag)
        self.tag = tag

    def __repr__(self):
        return "ScriptedError(%r)" % (self.tag,)


class ErrA(ScriptedError):
    pass


class ErrB(ScriptedError):
    pass


class ErrC(ErrA):
    pass


class FalsyErr(ScriptedError):
    """an exception object whose truth value is False (e.g. an aggregate error with no members)"""

    def __bool__(self):
        return False

    def __len__(self):
        return 0


class ErrStop(ScriptedError, StopIteration):
    """user code raising StopIteration (e.g. next() on an exhausted iterator): just an exception"""


class ErrCancelled(ScriptedError, CancelledError):
    """a future that FAILED WITH a CancelledError (e.g. pool.submit(other_cancelled_future.result)):
    failed, not cancelled"""


class ErrAttr(ScriptedError, AttributeError):
    pass


class ErrKey(ScriptedError, KeyError):
    pass


ERR_CLASSES = {"ErrA": ErrA, "ErrB": ErrB, "ErrC": ErrC, "ScriptedError": ScriptedError, "FalsyErr": FalsyErr,
               "ErrStop": ErrStop, "ErrCancelled": ErrCancelled, "ErrAttr": ErrAttr, "ErrKey": ErrKey}
EXOTIC = ["ErrStop", "ErrCancelled", "ErrAttr", "ErrKey"]


def sub_of(x):
    """Submission id embedded in a value or exception produced by scripted code (or None)."""
    if isinstance(x, ScriptedError):
        return sub_of(x.tag)
    if isinstance(x, (tuple, list)):
        if len(x) >= 2 and x[0] == "v":
            return x[1]
        for y in x:
            s = sub_of(y)
            if s is not None:
                return s
    return None


def desc(x):
    """Deterministic, JSON-able description of an outcome value/exception for logs."""
    if isinstance(x, ScriptedError):
        return ["exc", type(x).__name__, desc(x.tag)]
    if isinstance(x, BaseException):
        return ["exc", type(x).__name__, core._scrub(str(x))[:80]]
    if isinstance(x, (tuple, list)):
        return [desc(y) for y in x]
    if isinstance(x, str):
        return core._scrub(x) if "0x" in x else x
    if isinstance(x, (int, float, bool)) or x is None:
        return x
    if isinstance(x, Future):
        return "<future>"
    return "<%s>" % type(x).__name__


class Env(object):
    def __init__(self, sim, spec):
        self.sim = sim
        self.spec = spec
        self.clients = []
        self.objs = {}      # scenario scratch (never logged)
        self.excs = {}      # tag -> exception object (identity checks)
        self.viol = []      # violations found on-line by scenario code

    # -- history
    def rec(self, kind, *data):
        return self.sim.ev(kind, *data)

    def violation(self, oracle, sig, msg):
        if not self.sim.aborting:
            self.viol.append({"oracle": oracle, "sig": sig, "msg": msg})

    def exc(self, tag, cls="ScriptedError"):
        e = ERR_CLASSES[cls](tag)
        self.excs[repr(tag)] = e
        return e

    # -- semantic triggers: "run this client op once <event> has happened" (placement of a
    #    racing operation inside a window, DESIGN 3.3); user code calls hit(), clients await_()
    def hit(self, name):
        ev = self.objs.setdefault("_triggers", {}).get(name)
        if ev is None:
            ev = self.objs["_triggers"][name] = core.SimEvent()
        if not ev.is_set():
            had_waiters = bool(ev._waiters)
            ev.set()
            if had_waiters:
                # a client was waiting for exactly this moment: give it an even chance to run now,
                # inside the window, whatever the scheduling strategy of the run
                self.sim.yield_point("user-handoff")

    def await_(self, name, timeout=5.0):
        ev = self.objs.setdefault("_triggers", {}).get(name)
        if ev is None:
            ev = self.objs["_triggers"][name] = core.SimEvent()
        return ev.wait(timeout)

    # -- threads
    def client(self, fn, name=None):
        name = name or ("client-%d" % (len(self.clients) + 1))
        ts = self.sim.spawn(fn, name, daemon=False, client=True)
        self.clients.append(ts)
        self.sim.ev("thread-start", name)
        self.sim.yield_point("tstart")
        return ts

    def helper(self, fn, name):
        """A non-client simulated thread (e.g. an external completer)."""
        ts = self.sim.spawn(fn, name, daemon=True, client=False)
        self.sim.ev("thread-start", name)
        self.sim.yield_point("tstart")
        return ts

    def join(self, ts, timeout=None):
        sim = self.sim
        sim.yield_point("join")
        if ts.status == core.DONE:
            return True
        j = _Joiner(ts)
        ts.joiners.append(sim.cur)
        return sim.block(j, sim.deadline(timeout)) == "notify"

    def join_all(self):
        for ts in list(self.clients):
            self.join(ts)

    def sleep(self, secs):
        self.sim.sleep(secs)

    def now(self):
        return self.sim.now()


class _Joiner(object):
    site = "join"

    def __init__(self, ts):
        self.ts = ts

    def _sim_remove_waiter(self, t):
        if t in self.ts.joiners:
            self.ts.joiners.remove(t)


# ----------------------------------------------------------------------------------------
class SpyFuture(Future):
    """A plain stdlib Future that records every cancel() reaching it."""

    def __init__(self, env, label):
        Future.__init__(self)
        self._env = env
        self.label = label
        self.cancel_calls = 0

    def cancel(self):
        self.cancel_calls += 1
        self._env.rec("spy-cancel", self.label)
        r = Future.cancel(self)
        self._env.rec("spy-cancel-ret", self.label, r)
        return r


class SpyExecutor(Executor):
    """Scripted delegate ("the outside world"): n simulated workers, FIFO or scheduler-chosen
    order, records submissions / shutdown, hands out SpyFutures."""

    def __init__(self, env, n=1, order="fifo", name="spy"):
        self.env = env
        self.n = n
        self.order = order
        self.name = name
        self._lock = core.SimLock()
        self._cv = core.SimCondition(self._lock)
        self._items = []
        self._threads = []
        self._idle = 0
        self._is_shutdown = False
        self.shutdown_calls = []
        self.submitted = []
        self.counter = 0

    def submit(self, fn, *args, **kwargs):
        env = self.env
        with self._lock:
            if self._is_shutdown:
                raise RuntimeError("cannot schedule new futures after shutdown")
            self.counter += 1
            label = "%s#%d" % (self.name, self.counter)
            f = SpyFuture(env, label)
            f.fn = fn
            self._items.append((f, fn, args, kwargs))
            self.submitted.append(f)
            env.rec("spy-submit", label, getattr(fn, "tag", None))
            if len(self._items) > self._idle and len(self._threads) < self.n:
                t = core.SimThread(name="%s-worker-%d" % (self.name, len(self._threads)),
                                   target=self._worker)
                t.daemon = True
                self._threads.append(t)
                t.start()
            self._cv.notify()
        return f

    def shutdown(self, wait=True, **kwargs):
        self.env.rec("spy-shutdown", self.name, bool(wait), tuple(sorted(kwargs.items())))
        self.shutdown_calls.append((wait, dict(kwargs)))
        with self._lock:
            self._is_shutdown = True
            if kwargs.get("cancel_futures"):
                items, self._items = self._items, []
            else:
                items = []
            self._cv.notify_all()
        for (f, _, _, _) in items:
            Future.cancel(f)
            f.set_running_or_notify_cancel()
        if wait:
            for t in list(self._threads):
                t.join()

    def reap(self, which="all"):
        """Fault: cancel queued (not yet running) futures behind the library's back."""
        with self._lock:
            items, self._items = self._items, []
        n = 0
        for (f, _, _, _) in items:
            if Future.cancel(f):
                n += 1
                self.env.rec("spy-reaped", f.label)
                f.set_running_or_notify_cancel()
        return n

    def _worker(self):
        env = self.env
        sim = env.sim
        while True:
            with self._lock:
                while not self._items:
                    if self._is_shutdown:
                        return
                    self._idle += 1
                    self._cv.wait()
                    self._idle -= 1
                if self.order == "fifo" or len(self._items) == 1:
                    item = self._items.pop(0)
                else:
                    item = self._items.pop(len(self._items) - 1)
            (f, fn, args, kwargs) = item
            if not f.set_running_or_notify_cancel():
                continue
            env.rec("spy-run", f.label)
            try:
                r = fn(*args, **kwargs)
            except Exception as e:
                env.rec("spy-done", f.label, "exc")
                f.set_exception(e)
                env.rec("spy-fin", f.label)
            else:
                env.rec("spy-done", f.label, "ok")
                f.set_result(r)
                env.rec("spy-fin", f.label)
            del item, f, fn, args, kwargs


# ----------------------------------------------------------------------------------------
def make_base(env, base):
    from more_executors import Executors
    kind = base.get("kind", "sync")
    name = base.get("name")
    kw = {"name": name} if name else {}
    if kind == "sync":
        return Executors.sync(**kw)
    if kind == "pool":
        return Executors.thread_pool(max_workers=base.get("n", 1), **kw)
    if kind == "spy":
        ex = SpyExecutor(env, n=base.get("n", 1), order=base.get("order", "fifo"))
        env.objs.setdefault("spies", []).append(ex)
        return ex
    raise ValueError(kind)


class _With(object):
    """ex.with_x(...) where the executor has the chaining methods, else Executors.with_x(ex, ...)
    (the scripted SpyExecutor is a plain concurrent.futures.Executor)."""

    def __init__(self, ex):
        self._ex = ex

    def __getattr__(self, name):
        m = getattr(self._ex, name, None)
        if m is not None:
            return m
        from more_executors import Executors
        from functools import partial
        return partial(getattr(Executors, name), self._ex)


def add_layer(env, ex, layer, fns):
    """Apply one `with_*` layer.  `fns` supplies the user functions for the layer by key."""
    ex = _With(ex)
    t = layer["t"]
    kw = {}
    if "name" in layer:
        kw["name"] = layer["name"]
    if t == "map":
        if layer.get("fn") is not None:
            kw["fn"] = fns["map_fn"](layer)
        if layer.get("err") is not None:
            kw["error_fn"] = fns["err_fn"](layer)
        return ex.with_map(**kw)
    if t == "flat_map":
        if layer.get("fn") is not None:
            kw["fn"] = fns["flat_fn"](layer)
        if layer.get("err") is not None:
            kw["error_fn"] = fns["flat_err_fn"](layer)
        return ex.with_flat_map(**kw)
    if t == "retry":
        if layer.get("policy"):
            kw["retry_policy"] = fns["policy"](layer)
        else:
            for k in ("max_attempts", "sleep", "exponent", "max_sleep"):
                if k in layer:
                    kw[k] = layer[k]
            if "exception_base" in layer:
                kw["exception_base"] = [ERR_CLASSES[c] for c in layer["exception_base"]]
        return ex.with_retry(**kw)
    if t == "poll":
        kw["poll_fn"] = fns["poll_fn"](layer)
        if layer.get("cancel_fn") is not None:
            kw["cancel_fn"] = fns["cancel_fn"](layer)
        if "interval" in layer:
            kw["default_interval"] = layer["interval"]
        return ex.with_poll(**kw)
    if t == "throttle":
        c = layer.get("count", 2)
        if isinstance(c, dict):
            c = fns["count_fn"](layer)
        return ex.with_throttle(c, block=layer.get("block", False), **kw)
    if t == "timeout":
        return ex.with_timeout(layer.get("timeout", 1000.0), **kw)
    if t == "cos":
        return ex.with_cancel_on_shutdown(**kw)
    raise ValueError(t)


def build_stack(env, base, layers, fns):
    ex = make_base(env, base)
    chain = [ex]
    for i, layer in enumerate(layers):
        layer = dict(layer)
        layer["_i"] = i
        ex = add_layer(env, ex, layer, fns)
        chain.append(ex)
    return ex, chain
