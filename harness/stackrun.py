"""Generic 'executor stack' scenario: builds the stack of a spec, runs client op lists and
records the history that the stack-level oracles (C01, C03, C06, C11, C18, C20) read."""
import gc
from concurrent.futures import CancelledError, TimeoutError as FTimeout

from .env import build_stack, desc, SpyExecutor
from .stackgen import Fns


def fut_state(f):
    if not f.done():
        return ("pending",)
    if f.cancelled():
        return ("cancelled",)
    e = f.exception()
    if e is not None:
        return ("exc", e)
    return ("val", f.result())


def state_desc(st):
    if st[0] in ("pending", "cancelled"):
        return [st[0]]
    d = desc(st[1])
    return [st[0], d if not (isinstance(d, str) and d.startswith("<")) else _scrub_repr(st[1])]


def _scrub_repr(x):
    import re
    return re.sub(r"0x[0-9a-fA-F]+", "0x?", repr(x))[:60]


class StackRun(object):
    def __init__(self, spec, env):
        self.spec = spec
        self.env = env
        self.futs = {}
        self.fns = Fns(env)
        self.ex = None
        self.chain = None
        self.calls = {}
        self.cb_runs = {}

    def build(self):
        spec, env = self.spec, self.env
        if spec.get("aux"):
            from more_executors import Executors
            self.fns.aux = Executors.thread_pool(max_workers=1, name="aux")
        self.ex, self.chain = build_stack(env, spec["base"], spec["layers"], self.fns.get())
        self.fns.chain = self.chain
        return self.ex

    def make_fn(self, s):
        env = self.env
        sim = env.sim
        sub = self.spec["subs"][str(s)]
        script = sub.get("script") or (["ErrA"] * sub.get("fail", 0) + ["ok"])
        calls = self.calls

        def fn(*args, **kwargs):
            n = calls[s] = calls.get(s, 0) + 1
            env.rec("call", s, n, desc(args), desc(sorted(kwargs.items())))
            env.hit("call-enter")
            if sub.get("nest") and self.fns.nest_hook:
                self.fns.nest_hook(None, "callable")
            if sub.get("cancel_sibling") is not None and n == 1:
                # re-entrant use: the callable cancels another future of the same executor
                # (with an inline base this happens on the library's own thread, inside its hand-over)
                sib = self.futs.get(sub["cancel_sibling"])
                if sib is not None:
                    i_ = env.rec("op", "cancel", sub["cancel_sibling"])
                    try:
                        r_ = sib.cancel()
                        env.rec("op-ret", "cancel", sub["cancel_sibling"], r_ if isinstance(r_, bool) else "nonbool", None, i_)
                    except Exception as e_:
                        env.rec("op-ret", "cancel", sub["cancel_sibling"], "raised", type(e_).__name__, i_)
            if sub.get("dur"):
                sim.sleep(sub["dur"])
            o = script[min(n - 1, len(script) - 1)]
            env.rec("call-end", s, n, o)
            env.hit("call-exit")
            if o != "ok":
                raise env.exc(("v", s, n), o)
            return ("v", s, n)
        fn.tag = s
        return fn

    def submit(self, s):
        env = self.env
        sub = self.spec["subs"][str(s)]
        args = tuple(tuple(a) if isinstance(a, list) else a for a in sub.get("args", []))
        kwargs = dict(sub.get("kwargs", {}))
        i = env.rec("op", "submit", s)
        try:
            f = self.ex.submit(self.make_fn(s), *args, **kwargs)
        except RuntimeError as e:
            env.rec("op-ret", "submit", s, "RuntimeError", str(e)[:60], i)
            return None
        self.futs[s] = f
        env.rec("op-ret", "submit", s, "ok", None, i)
        return f

    def do_op(self, op):
        env = self.env
        k = op[0]
        if k == "submit":
            self.submit(op[1])
            return
        if k == "sleep":
            env.sleep(op[1])
            return
        if k == "await":
            env.await_(op[1], op[2] if len(op) > 2 else 2.0)
            return
        if k == "shutdown":
            i = env.rec("op", "shutdown", op[1])
            self.ex.shutdown(op[1])
            env.rec("op-ret", "shutdown", None, "ok", None, i)
            return
        if k == "reap":
            for sp in env.objs.get("spies", []):
                n = sp.reap()
                env.rec("op", "reap", n)
            return
        if k == "gc":
            gc.collect()
            return
        if k == "notify":
            for e in self.chain:
                if hasattr(e, "notify"):
                    e.notify()
            return
        s = op[1]
        f = self.futs.get(s)
        if f is None:
            return
        if k == "cancel":
            i = env.rec("op", "cancel", s)
            try:
                r = f.cancel()
            except Exception as e:
                env.rec("op-ret", "cancel", s, "raised", type(e).__name__ + ": " + _short(e), i)
            else:
                env.rec("op-ret", "cancel", s, r if isinstance(r, bool) else repr(type(r)), None, i)
        elif k == "cb":
            key = (s, len(self.cb_runs))
            self.cb_runs[key] = 0

            def cb(fut, key=key):
                self.cb_runs[key] += 1
                env.rec("cb-run", key[0], key[1], fut.done(), fut is f)
            i = env.rec("op", "cb", s, key[1])
            try:
                f.add_done_callback(cb)
            except Exception as e:
                env.rec("op-ret", "cb", s, "raised", type(e).__name__ + ": " + _short(e), i)
            else:
                env.rec("op-ret", "cb", s, "ok", None, i)
        elif k == "result":
            i = env.rec("op", "result", s)
            try:
                v = f.result(timeout=op[2] if len(op) > 2 else None)
                env.rec("op-ret", "result", s, "val", desc(v), i)
            except CancelledError:
                env.rec("op-ret", "result", s, "cancelled", None, i)
            except FTimeout:
                env.rec("op-ret", "result", s, "timeout", None, i)
            except Exception as e:
                env.rec("op-ret", "result", s, "exc", desc(e), i)
        elif k == "done":
            env.rec("obs", s, f.done(), f.cancelled() if f.done() else None)

    def client_body(self, ops):
        def body():
            for op in ops:
                self.do_op(op)
        return body

    def run_clients(self):
        env = self.env
        for ops in self.spec["clients"]:
            env.client(self.client_body(ops))
        env.join_all()

    def finals(self):
        """Record the terminal state of every future (called by the main client at the end)."""
        out = {}
        for s in sorted(self.futs):
            st = fut_state(self.futs[s])
            out[s] = st
            self.env.rec("final", s, state_desc(st))
        self.env.objs["finals"] = out
        return out


def _short(e):
    import re
    return re.sub(r"0x[0-9a-fA-F]+", "0x?", str(e))[:100]


def tap_submits(env, chain):
    """Instance-level spies: record every submit() reaching each executor of the chain
    ('dsubmit' level fn-tag / 'dsubmit-ret') without adding a layer."""
    for level, ex in enumerate(chain):
        orig = ex.submit

        def submit(*a, _orig=orig, _level=level, **k):
            fn = a[0] if a else None
            if _level and hasattr(ex, "submit_timeout") and False:
                pass
            env.rec("dsubmit", _level, getattr(fn, "tag", None))
            f = _orig(*a, **k)
            env.rec("dsubmit-ret", _level, getattr(fn, "tag", None))
            return f
        try:
            ex.submit = submit
        except AttributeError:
            pass
